# setup: build every engine once (checks rebuild incrementally from /repo on every run anyway)
setup:
	$(MAKE) -s -f engines/chanbfs/Makefile FLAVOUR=plain all
	$(MAKE) -s -j16 -f engines/vsched/Makefile FLAVOUR=cov all
	$(MAKE) -s -j16 -f engines/seqx/Makefile FLAVOUR=plain all
	$(MAKE) -s -j16 -f engines/seqx/Makefile FLAVOUR=asan c17
.PHONY: setup
