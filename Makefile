# setup: build every engine once (checks rebuild incrementally from /repo on every run anyway)
V ?= $(CURDIR)
setup:
	$(MAKE) -s -f $(V)/engines/chanbfs/Makefile V=$(V) FLAVOUR=plain all
	$(MAKE) -s -j16 -f $(V)/engines/vsched/Makefile V=$(V) FLAVOUR=cov all
	$(MAKE) -s -j16 -f $(V)/engines/seqx/Makefile V=$(V) FLAVOUR=plain all
	$(MAKE) -s -j16 -f $(V)/engines/seqx/Makefile V=$(V) FLAVOUR=asan c17
.PHONY: setup
