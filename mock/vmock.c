// Recording mock driver; see vmock.h.  Not instrumented; its own synchronisation (trigger gating)
// goes through the interposed pthread calls, so it is scheduled like everything else.
#define _GNU_SOURCE
#include "vmock.h"
#include "vsched.h"
#include <pthread.h>
#include <stdio.h>
#include <stdlib.h>
#include <string.h>
#include <sys/mman.h>

struct vm_state VM;

struct vcam_obj { struct Camera camera; int idx; struct CameraProperties props; };
struct vstore_obj { struct Storage storage; int idx; struct StorageProperties props; };

static pthread_mutex_t g_trig_lock = PTHREAD_MUTEX_INITIALIZER;
static pthread_cond_t g_trig_cond = PTHREAD_COND_INITIALIZER;

static const char* P(void) { return VM.prop ? VM.prop : "C08"; }

const char* vmock_call_name(int c)
{
    static const char* n[] = { "?", "open", "set", "get", "get_meta", "get_shape", "start", "stop", "trigger", "get_frame", "append", "reserve", "close", "driver_shutdown" };
    return (c >= 0 && c <= VC_DRV_SHUTDOWN) ? n[c] : "?";
}
struct vm_dev* vmock_cam(int i) { return &VM.dev[i]; }
struct vm_dev* vmock_store(int i) { return &VM.dev[VM_NCAM + i]; }

void vmock_reset_config(void)
{
    memset(&VM, 0, sizeof VM);
    for (int i = 0; i < VM_NCAM; ++i)
        VM.cam[i] = (struct vm_cam_cfg){ .width = 3, .height = 1, .type = SampleType_u8, .exposure_ms = 10, .fail_get_frame_at = -1, .fail_shape_at = -1, .reshape_at = -1, .fail_start_at = -1 };
    for (int i = 0; i < VM_NSTORE; ++i)
        VM.store[i] = (struct vm_store_cfg){ .append_ms = 0, .fail_append_at = -1, .fail_start_at = -1 };
    for (int i = 0; i < VM_NCAM + VM_NSTORE; ++i) { VM.dev[i].kind = i < VM_NCAM ? 1 : 2; VM.dev[i].idx = i < VM_NCAM ? i : i - VM_NCAM; }
    VM.monitor = 1;
    VM.packet_checks = 1;
}

uint8_t vmock_pixel(int acq, int stream, uint64_t frame, uint32_t i)
{
    // every third byte has its top bit set: signed sample types (i8, and i16 through its high byte) see negative values too
    return (uint8_t)((1 + 17 * acq + 61 * stream + 7 * frame + 3 * i) ^ (i % 3 == 1 ? 0x80 : 0));
}

static size_t type_bytes(int type)
{
    switch (type) {
        case SampleType_u8: case SampleType_i8: return 1;
        case SampleType_u16: case SampleType_i16: case SampleType_u10: case SampleType_u12: case SampleType_u14: return 2;
        case SampleType_f32: return 4;
    }
    return 0;
}
size_t vmock_expected_frame_bytes(uint32_t w, uint32_t h, int type)
{
    size_t n = sizeof(struct VideoFrame) /* the header, whatever its size in this tree */ + (size_t)w * h * type_bytes(type);
    return (n + 7) / 8 * 8;
}

static void logcall(struct vm_dev* d, int call, int arg)
{
    if (VM.nlog < VM_MAXCALLS) { VM.log[VM.nlog].dev = (uint8_t)(d ? (d - VM.dev) : 255); VM.log[VM.nlog].call = (uint8_t)call; VM.log[VM.nlog].arg = (int16_t)arg; ++VM.nlog; }
    vs_note("driver: %s%d.%s(%d)", d ? (d->kind == 1 ? "vcam" : "vstore") : "drv", d ? d->idx : 0, vmock_call_name(call), arg);
}
static void monitor(struct vm_dev* d, int call)
{
    if (!VM.monitor) return;
    const char* dn = d->kind == 1 ? "vcam" : "vstore";
    char cl[96];
    if (!d->open) { snprintf(cl, sizeof cl, "%s:device-call-while-not-open:%s", P(), vmock_call_name(call)); vs_fail(cl, "%s%d.%s called on a device that is not open", dn, d->idx, vmock_call_name(call)); }
    switch (call) {
        case VC_START:
            if (d->started) { snprintf(cl, sizeof cl, "%s:start-while-started", P()); vs_fail(cl, "%s%d started again without an intervening stop", dn, d->idx); }
            break;
        case VC_STOP:
            if (!d->started) { snprintf(cl, sizeof cl, "%s:stop-without-start", P()); vs_fail(cl, "%s%d.stop without a preceding successful start", dn, d->idx); }
            break;
        case VC_GET_FRAME:
            // another thread may legitimately stop the camera between the HAL's state check and the driver call
            // (that is how a pending frame call is unblocked), so at thread level this is an event, not a violation
            if (!d->started && !VM.strict_sequential) { vs_event(44); break; }
            // fallthrough
        case VC_APPEND:
            if (!d->started) { snprintf(cl, sizeof cl, "%s:data-call-outside-run:%s", P(), vmock_call_name(call)); vs_fail(cl, "%s%d.%s outside start..stop", dn, d->idx, vmock_call_name(call)); }
            break;
        case VC_CLOSE:
            break;
    }
}

// ---------------------------------------------------------------- packets (C05)
int vmock_check_packet(const uint8_t* beg, const uint8_t* end, char* msg, size_t n)
{
    int k = 0;
    const uint8_t* cur = beg;
    while (cur < end) {
        if (((uintptr_t)cur) % 8) { snprintf(msg, n, "frame %d of the packet starts at %p, not 8-byte aligned", k, (void*)cur); return -1; }
        if ((size_t)(end - cur) < sizeof(struct VideoFrame)) { snprintf(msg, n, "packet ends %zd bytes into frame %d's header", end - cur, k); return -1; }
        const struct VideoFrame* f = (const struct VideoFrame*)cur;
        size_t want = vmock_expected_frame_bytes(f->shape.dims.width, f->shape.dims.height, (int)f->shape.type);
        // lenient walk (packet checks off: a camera that delivers a SMALLER image than the shape it announced before the frame - the
        // runtime reserved the announced size): the record is at least as large as its image needs and 8-byte granular
        if (!VM.packet_checks && f->bytes_of_frame >= want && f->bytes_of_frame % 8 == 0) { }
        else if (f->bytes_of_frame != want) {
            snprintf(msg, n, "frame %d (id %llu, %ux%u type %d): bytes_of_frame=%zu, expected header+image rounded up to 8 = %zu", k, (unsigned long long)f->frame_id, f->shape.dims.width, f->shape.dims.height, (int)f->shape.type, f->bytes_of_frame, want);
            return -1;
        }
        if ((size_t)(end - cur) < f->bytes_of_frame) { snprintf(msg, n, "frame %d (id %llu) of %zu bytes overruns the packet end by %zu bytes", k, (unsigned long long)f->frame_id, f->bytes_of_frame, f->bytes_of_frame - (size_t)(end - cur)); return -1; }
        cur += f->bytes_of_frame;
        ++k;
    }
    return k;
}

// ---------------------------------------------------------------- camera
static struct vm_dev* cam_of(const struct Camera* c) { return &VM.dev[((const struct vcam_obj*)c)->idx]; }

static void cam_shape(int idx, struct ImageShape* s)
{
    const struct vm_cam_cfg* c = &VM.cam[idx];
    memset(s, 0, sizeof *s);
    s->dims.channels = 1; s->dims.width = c->width; s->dims.height = c->height; s->dims.planes = 1;
    s->strides.channels = 1; s->strides.width = 1; s->strides.height = c->width; s->strides.planes = (int64_t)c->width * c->height;
    s->type = (enum SampleType)c->type;
}
static enum DeviceStatusCode vcam_set(struct Camera* c, struct CameraProperties* p)
{
    struct vm_dev* d = cam_of(c);
    logcall(d, VC_SET, 0); monitor(d, VC_SET);
    if (VM.cam[d->idx].fail_set > 0) { VM.cam[d->idx].fail_set--; return Device_Err; } // rejects this many set calls, then accepts
    struct vcam_obj* o = (struct vcam_obj*)c;
    o->props = *p;
    return Device_Ok;
}
static enum DeviceStatusCode vcam_get(const struct Camera* c, struct CameraProperties* p)
{
    struct vm_dev* d = cam_of(c);
    logcall(d, VC_GET, 0); monitor(d, VC_GET);
    const struct vcam_obj* o = (const struct vcam_obj*)c;
    *p = o->props;
    p->shape.x = VM.cam[d->idx].width; p->shape.y = VM.cam[d->idx].height; p->pixel_type = (enum SampleType)VM.cam[d->idx].type;
    if (!p->binning) p->binning = 1;
    return Device_Ok;
}
static enum DeviceStatusCode vcam_get_meta(const struct Camera* c, struct CameraPropertyMetadata* m)
{
    struct vm_dev* d = cam_of(c);
    logcall(d, VC_GET_META, 0); monitor(d, VC_GET_META);
    memset(m, 0, sizeof *m);
    return Device_Ok;
}
static enum DeviceStatusCode vcam_get_shape(const struct Camera* c, struct ImageShape* s)
{
    struct vm_dev* d = cam_of(c);
    monitor(d, VC_GET_SHAPE);
    cam_shape(d->idx, s);
    if (d->started && VM.cam[d->idx].fail_shape_at >= 0 && d->shape_calls_in_run++ == VM.cam[d->idx].fail_shape_at) { vs_event(40); return Device_Err; }
    return Device_Ok;
}
static enum DeviceStatusCode vcam_start(struct Camera* c)
{
    struct vm_dev* d = cam_of(c);
    logcall(d, VC_START, d->starts); monitor(d, VC_START);
    int k = d->starts++;
    if (VM.cam[d->idx].fail_start_at == k) return Device_Err;
    d->started = 1; d->acq++; d->calls_in_run = 0; d->shape_calls_in_run = 0; d->hw_id = 0; d->stop_flag = 0;
    d->triggers = 0; d->consumed = 0;
    return Device_Ok;
}
static enum DeviceStatusCode vcam_stop(struct Camera* c)
{
    struct vm_dev* d = cam_of(c);
    logcall(d, VC_STOP, 0); monitor(d, VC_STOP);
    pthread_mutex_lock(&g_trig_lock);
    d->stop_flag = 1; d->started = 0; d->stops++;
    pthread_cond_broadcast(&g_trig_cond);
    pthread_mutex_unlock(&g_trig_lock);
    return Device_Ok;
}
static enum DeviceStatusCode vcam_trigger(struct Camera* c)
{
    struct vm_dev* d = cam_of(c);
    logcall(d, VC_TRIGGER, 0); monitor(d, VC_TRIGGER);
    pthread_mutex_lock(&g_trig_lock);
    d->triggers++;
    pthread_cond_broadcast(&g_trig_cond);
    pthread_mutex_unlock(&g_trig_lock);
    return Device_Ok;
}
static enum DeviceStatusCode vcam_get_frame(struct Camera* c, void* im, size_t* nbytes, struct ImageInfo* info)
{
    struct vm_dev* d = cam_of(c);
    const struct vm_cam_cfg* cfg = &VM.cam[d->idx];
    int k = d->calls_in_run++;
    logcall(d, VC_GET_FRAME, k); monitor(d, VC_GET_FRAME);
    if (cfg->reshape_at >= 0 && cfg->reshape_mode == 1 && k == cfg->reshape_at &&
        (size_t)cfg->reshape_w * cfg->reshape_h * type_bytes(cfg->type) <= *nbytes) { VM.cam[d->idx].width = cfg->reshape_w; VM.cam[d->idx].height = cfg->reshape_h; vs_event(45); }
    struct ImageShape s;
    cam_shape(d->idx, &s);
    size_t need = (size_t)cfg->width * cfg->height * type_bytes(cfg->type);
    if (*nbytes < need) return Device_Err;
    d->in_get_frame = 1;
    if (cfg->exposure_ms > 0) vs_sleep_ms(cfg->exposure_ms); // the exposure: stop may arrive meanwhile
    const struct vcam_obj* o = (const struct vcam_obj*)c;
    if (cfg->trigger || o->props.input_triggers.frame_start.enable) {
        pthread_mutex_lock(&g_trig_lock);
        while (!d->stop_flag && d->consumed >= d->triggers) pthread_cond_wait(&g_trig_cond, &g_trig_lock);
        if (!d->stop_flag) d->consumed++;
        pthread_mutex_unlock(&g_trig_lock);
    }
    d->in_get_frame = 0;
    if (d->stop_flag) { *nbytes = 0; return Device_Ok; } // device-kit contract: no frame produced
    if (cfg->fail_get_frame_at == k) { vs_event(40); return Device_Err; }
    uint64_t hw = d->hw_id++;
    uint8_t* px = im;
    for (uint32_t i = 0; i < need; ++i) px[i] = vmock_pixel(d->acq, d->idx, hw, i);
    info->shape = s; info->hardware_frame_id = hw; info->hardware_timestamp = vs_now_ns();
    *nbytes = need;
    if (d->ndelivered < VM_MAXFRAMES) {
        struct vm_frame* f = &d->delivered[d->ndelivered++];
        memset(f, 0, sizeof *f);
        f->acq = d->acq; f->frame_id = hw; f->hardware_frame_id = hw; f->shape = s; f->ts_hw = info->hardware_timestamp;
        f->npix_bytes = (uint32_t)(need < VM_MAXPIX ? need : VM_MAXPIX);
        memcpy(f->pix, px, f->npix_bytes);
    }
    if (cfg->reshape_at >= 0 && cfg->reshape_mode == 0 && k + 1 == cfg->reshape_at) { VM.cam[d->idx].width = cfg->reshape_w; VM.cam[d->idx].height = cfg->reshape_h; vs_event(45); }
    return Device_Ok;
}

// ---------------------------------------------------------------- storage
static struct vm_dev* store_of(const struct Storage* s) { return &VM.dev[VM_NCAM + ((const struct vstore_obj*)s)->idx]; }

static enum DeviceState vstore_set(struct Storage* s, const struct StorageProperties* p)
{
    struct vm_dev* d = store_of(s);
    logcall(d, VC_SET, 0); monitor(d, VC_SET);
    if (VM.store[d->idx].fail_set) { if (!d->started) d->armed = 0; return DeviceState_AwaitingConfiguration; }
    (void)p;
    d->armed = 1;
    return DeviceState_Armed;
}
static void vstore_get(const struct Storage* s, struct StorageProperties* p)
{
    struct vm_dev* d = store_of(s);
    logcall(d, VC_GET, 0); monitor(d, VC_GET);
    memset(p, 0, sizeof *p);
}
static void vstore_get_meta(const struct Storage* s, struct StoragePropertyMetadata* m)
{
    struct vm_dev* d = store_of(s);
    logcall(d, VC_GET_META, 0); monitor(d, VC_GET_META);
    memset(m, 0, sizeof *m);
}
static enum DeviceState vstore_start(struct Storage* s)
{
    struct vm_dev* d = store_of(s);
    logcall(d, VC_START, d->starts); monitor(d, VC_START);
    int k = d->starts++;
    // "started only when armed": a storage device that was never configured, or that refused its last start, is not armed
    if (VM.monitor && !d->armed && !d->started) { char cl[96]; snprintf(cl, sizeof cl, "%s:start-while-not-armed", P()); vs_fail(cl, "vstore%d.start although the device is not armed (no accepted set since it was opened, refused a start, or failed an append)", d->idx); }
    if (VM.store[d->idx].fail_start_at == k) { d->armed = 0; return DeviceState_AwaitingConfiguration; }
    d->started = 1; d->acq++; d->appends_in_run = 0;
    return DeviceState_Running;
}
static enum DeviceState vstore_stop(struct Storage* s)
{
    struct vm_dev* d = store_of(s);
    logcall(d, VC_STOP, 0); monitor(d, VC_STOP);
    d->started = 0; d->stops++; d->armed = 1;
    return DeviceState_Armed;
}
static enum DeviceState vstore_append(struct Storage* s, const struct VideoFrame* frames, size_t* nbytes)
{
    struct vm_dev* d = store_of(s);
    const struct vm_store_cfg* cfg = &VM.store[d->idx];
    int k = d->appends_in_run++;
    logcall(d, VC_APPEND, (int)*nbytes); monitor(d, VC_APPEND);
    if (cfg->append_ms > 0) {
        // zero-copy stability: the packet belongs to the storage device until append returns, however long that takes
        uint64_t h0 = 1469598103934665603ull, h1 = h0;
        const uint8_t* q = (const uint8_t*)frames;
        for (size_t i = 0; i < *nbytes; ++i) h0 = (h0 ^ q[i]) * 1099511628211ull;
        vs_sleep_ms(cfg->append_ms);
        for (size_t i = 0; i < *nbytes; ++i) h1 = (h1 ^ q[i]) * 1099511628211ull;
        if (h0 != h1) vs_fail("C04:packet-changed-during-append", "the %zu-byte packet handed to vstore%d changed while the (slow) append was still running", *nbytes, d->idx);
        vs_event(48);
    }
    if (cfg->fail_append_at == k) { vs_event(41); d->started = 0; d->armed = 0; d->self_stops++; /* a storage that fails leaves the running state by itself */ return DeviceState_AwaitingConfiguration; }
    const uint8_t* beg = (const uint8_t*)frames;
    const uint8_t* end = beg + *nbytes;
    char msg[400];
    int nf = vmock_check_packet(beg, end, msg, sizeof msg);
    if (nf < 0) {
        if (VM.packet_checks) vs_fail("C05:storage-packet-malformed", "packet %d handed to vstore%d: %s", d->npackets, d->idx, msg);
        nf = 0;
    }
    if (*nbytes && nf == 0 && VM.packet_checks) vs_fail("C05:storage-packet-malformed", "non-empty packet of %zu bytes holds no whole frame", *nbytes);
    d->npackets++;
    if (nf > 1) vs_event(42);
    const uint8_t* cur = beg;
    for (int i = 0; i < nf; ++i) {
        const struct VideoFrame* f = (const struct VideoFrame*)cur;
        if (d->nreceived < VM_MAXFRAMES) {
            struct vm_frame* r = &d->received[d->nreceived++];
            memset(r, 0, sizeof *r);
            r->acq = d->acq; r->frame_id = f->frame_id; r->hardware_frame_id = f->hardware_frame_id; r->shape = f->shape; r->bytes_of_frame = f->bytes_of_frame;
            r->ts_hw = f->timestamps.hardware; r->ts_acq = f->timestamps.acq_thread;
            size_t nb = f->bytes_of_frame - sizeof *f;
            size_t img = (size_t)f->shape.dims.width * f->shape.dims.height * type_bytes((int)f->shape.type);
            if (img < nb) nb = img;
            r->npix_bytes = (uint32_t)(nb < VM_MAXPIX ? nb : VM_MAXPIX);
            memcpy(r->pix, f->data, r->npix_bytes);
        }
        cur += f->bytes_of_frame;
    }
    return DeviceState_Running;
}
static void vstore_reserve(struct Storage* s, const struct ImageShape* shape)
{
    struct vm_dev* d = store_of(s);
    logcall(d, VC_RESERVE, 0); monitor(d, VC_RESERVE);
    d->reserved = *shape; d->nreserve++;
}
static void vstore_destroy(struct Storage* s) { (void)s; }

// ---------------------------------------------------------------- driver
struct vdriver { struct Driver driver; };
static struct vdriver g_driver;

static const char* classify_crash(void* addr, char* detail, size_t n)
{
    for (int i = 0; i < VM_NCAM + VM_NSTORE; ++i) {
        struct vm_dev* d = &VM.dev[i];
        (void)d;
    }
    extern void* vmock_closed_pages[]; extern int vmock_nclosed; extern int vmock_closed_dev[];
    for (int i = 0; i < vmock_nclosed; ++i)
        if ((char*)addr >= (char*)vmock_closed_pages[i] && (char*)addr < (char*)vmock_closed_pages[i] + 4096) {
            int di = vmock_closed_dev[i];
            snprintf(detail, n, "memory of %s%d touched after the driver closed it:", di < VM_NCAM ? "vcam" : "vstore", di < VM_NCAM ? di : di - VM_NCAM);
            static char cl[64];
            snprintf(cl, sizeof cl, "%s:use-after-close", P());
            return cl;
        }
    return 0;
}
void* vmock_closed_pages[64]; int vmock_closed_dev[64]; int vmock_nclosed;

static uint32_t vd_count(struct Driver* d) { (void)d; return VM_NCAM + VM_NSTORE; }
static enum DeviceStatusCode vd_describe(const struct Driver* d, struct DeviceIdentifier* id, uint64_t i)
{
    (void)d;
    if (i >= VM_NCAM + VM_NSTORE) return Device_Err;
    memset(id, 0, sizeof *id);
    id->device_id = (uint8_t)i;
    id->kind = i < VM_NCAM ? DeviceKind_Camera : DeviceKind_Storage;
    snprintf(id->name, sizeof id->name, "%s%d", i < VM_NCAM ? "vcam" : "vstore", (int)(i < VM_NCAM ? i : i - VM_NCAM));
    return Device_Ok;
}
static enum DeviceStatusCode vd_open(struct Driver* drv, uint64_t i, struct Device** out)
{
    (void)drv;
    if (i >= VM_NCAM + VM_NSTORE) return Device_Err;
    struct vm_dev* d = &VM.dev[i];
    logcall(d, VC_OPEN, 0);
    // an exclusive device: a second open while it is in use is refused (the property does not forbid the runtime to try, e.g. when
    // one stream is configured with the device another stream still holds)
    if (d->open) { vs_event(46); return Device_Err; }
    if (VM.fail_open[i] > 0) { VM.fail_open[i]--; vs_event(47); return Device_Err; }
    void* pg = mmap(0, 4096, PROT_READ | PROT_WRITE, MAP_PRIVATE | MAP_ANONYMOUS, -1, 0);
    if (pg == MAP_FAILED) return Device_Err;
    d->page = pg; d->page_bytes = 4096; d->open = 1; d->opens++; d->started = 0; d->armed = 0;
    if (d->kind == 1) {
        struct vcam_obj* o = pg;
        o->idx = d->idx;
        o->camera = (struct Camera){ .state = DeviceState_AwaitingConfiguration, .set = vcam_set, .get = vcam_get, .get_meta = vcam_get_meta, .get_shape = vcam_get_shape,
                                     .start = vcam_start, .stop = vcam_stop, .execute_trigger = vcam_trigger, .get_frame = vcam_get_frame };
        *out = &o->camera.device;
    } else {
        struct vstore_obj* o = pg;
        o->idx = d->idx;
        o->storage = (struct Storage){ .state = DeviceState_AwaitingConfiguration, .set = vstore_set, .get = vstore_get, .get_meta = vstore_get_meta, .start = vstore_start,
                                       .append = vstore_append, .stop = vstore_stop, .destroy = vstore_destroy, .reserve_image_shape = vstore_reserve };
        *out = &o->storage.device;
    }
    return Device_Ok;
}
static enum DeviceStatusCode vd_close(struct Driver* drv, struct Device* in)
{
    (void)drv;
    struct vm_dev* d = 0;
    for (int i = 0; i < VM_NCAM + VM_NSTORE; ++i)
        if (VM.dev[i].open && VM.dev[i].page == (void*)in) d = &VM.dev[i]; // Device is the first member of Camera/Storage
    if (!d) { char cl[96]; snprintf(cl, sizeof cl, "%s:close-of-unknown-device", P()); vs_fail(cl, "driver close called with %p which is not an open device of this driver", (void*)in); }
    logcall(d, VC_CLOSE, 0);
    if (VM.monitor && d->started) {
        // closing a started device is the driver's business (real drivers stop in close); the HAL is expected to stop first for storage
        vs_event(43);
    }
    d->open = 0; d->closes++; d->started = 0;
    mprotect(d->page, d->page_bytes, PROT_NONE); // never unmapped: any later touch faults
    if (vmock_nclosed < 64) { vmock_closed_pages[vmock_nclosed] = d->page; vmock_closed_dev[vmock_nclosed] = (int)(d - VM.dev); ++vmock_nclosed; }
    d->page = 0;
    return Device_Ok;
}
static enum DeviceStatusCode vd_shutdown(struct Driver* drv)
{
    (void)drv;
    logcall(0, VC_DRV_SHUTDOWN, 0);
    VM.driver_shutdowns++;
    return Device_Ok;
}

struct Driver* vmock_driver_init(void (*reporter)(int, const char*, int, const char*, const char*))
{
    (void)reporter;
    g_driver.driver = (struct Driver){ .device_count = vd_count, .describe = vd_describe, .open = vd_open, .close = vd_close, .shutdown = vd_shutdown };
    VM.driver_inits++;
    vs_crash_classifier = classify_crash;
    return &g_driver.driver;
}
