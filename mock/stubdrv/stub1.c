// stub driver 1 (installed as acquire-driver-hdcam): a camera whose name contains regex metacharacters and a storage
#include "device/kit/driver.h"
#include "device/kit/camera.h"
#include "device/kit/storage.h"
#include <stdlib.h>
#include <string.h>
static const struct { enum DeviceKind kind; const char* name; } DEVS[] = { { DeviceKind_Camera, "Stub Cam. X+" }, { DeviceKind_Storage, "stub.store" } };
static uint32_t count(struct Driver* d) { (void)d; return 2; }
static enum DeviceStatusCode describe(const struct Driver* d, struct DeviceIdentifier* id, uint64_t i)
{
    (void)d; if (i >= 2) return Device_Err;
    memset(id, 0, sizeof *id); id->device_id = (uint8_t)i; id->kind = DEVS[i].kind; strncpy(id->name, DEVS[i].name, sizeof id->name - 1); return Device_Ok;
}
static enum DeviceStatusCode c_set(struct Camera* c, struct CameraProperties* p) { (void)c; (void)p; return Device_Ok; }
static enum DeviceStatusCode c_get(const struct Camera* c, struct CameraProperties* p) { (void)c; memset(p, 0, sizeof *p); return Device_Ok; }
static enum DeviceStatusCode c_meta(const struct Camera* c, struct CameraPropertyMetadata* m) { (void)c; memset(m, 0, sizeof *m); return Device_Ok; }
static enum DeviceStatusCode c_shape(const struct Camera* c, struct ImageShape* s) { (void)c; memset(s, 0, sizeof *s); return Device_Ok; }
static enum DeviceStatusCode c_void(struct Camera* c) { (void)c; return Device_Ok; }
static enum DeviceStatusCode c_frame(struct Camera* c, void* im, size_t* n, struct ImageInfo* i) { (void)c; (void)im; (void)i; *n = 0; return Device_Ok; }
static enum DeviceState s_set(struct Storage* s, const struct StorageProperties* p) { (void)s; (void)p; return DeviceState_Armed; }
static void s_get(const struct Storage* s, struct StorageProperties* p) { (void)s; memset(p, 0, sizeof *p); }
static void s_meta(const struct Storage* s, struct StoragePropertyMetadata* m) { (void)s; memset(m, 0, sizeof *m); }
static enum DeviceState s_start(struct Storage* s) { (void)s; return DeviceState_Running; }
static enum DeviceState s_append(struct Storage* s, const struct VideoFrame* f, size_t* n) { (void)s; (void)f; (void)n; return DeviceState_Running; }
static enum DeviceState s_stop(struct Storage* s) { (void)s; return DeviceState_Armed; }
static void s_destroy(struct Storage* s) { (void)s; }
static void s_reserve(struct Storage* s, const struct ImageShape* sh) { (void)s; (void)sh; }
static enum DeviceStatusCode open_(struct Driver* d, uint64_t i, struct Device** out)
{
    (void)d; if (i >= 2) return Device_Err;
    if (DEVS[i].kind == DeviceKind_Camera) {
        struct Camera* c = calloc(1, sizeof *c);
        c->state = DeviceState_AwaitingConfiguration; c->set = c_set; c->get = c_get; c->get_meta = c_meta; c->get_shape = c_shape; c->start = c_void; c->stop = c_void; c->execute_trigger = c_void; c->get_frame = c_frame;
        *out = &c->device;
    } else {
        struct Storage* s = calloc(1, sizeof *s);
        s->state = DeviceState_AwaitingConfiguration; s->set = s_set; s->get = s_get; s->get_meta = s_meta; s->start = s_start; s->append = s_append; s->stop = s_stop; s->destroy = s_destroy; s->reserve_image_shape = s_reserve;
        *out = &s->device;
    }
    return Device_Ok;
}
static enum DeviceStatusCode close_(struct Driver* d, struct Device* in) { (void)d; free(in); return Device_Ok; }
static enum DeviceStatusCode shutdown_(struct Driver* d) { (void)d; return Device_Ok; }
static struct Driver DRV = { count, describe, open_, close_, shutdown_ };
struct Driver* acquire_driver_init_v0(void (*r)(int, const char*, int, const char*, const char*)) { (void)r; return &DRV; }
