// a shared library without the driver entry point (installed as acquire-driver-egrabber): loading it must fail cleanly
int not_a_driver(void) { return 42; }
