// Recording mock driver used by the E2 runtime scenarios.  It is loaded through the REAL
// loader/device-manager/HAL (a 10-line shim library named like one of the optional drivers forwards
// acquire_driver_init_v0 to vmock_driver_init in the harness executable).  Cameras vcam0/vcam1 and
// storages vstore0/vstore1; every device object lives on pages of its own which become PROT_NONE
// when the driver closes the device, so any later touch faults.
#ifndef VERIF_VMOCK_H
#define VERIF_VMOCK_H
#include <stddef.h>
#include <stdint.h>
#include "device/kit/driver.h"
#include "device/kit/camera.h"
#include "device/kit/storage.h"
#include "device/props/components.h"
#ifdef __cplusplus
extern "C" {
#endif

#define VM_NCAM 2
#define VM_NSTORE 2
#define VM_MAXFRAMES 64
#define VM_MAXCALLS 512
#define VM_MAXPIX 256

enum vm_call { VC_OPEN = 1, VC_SET, VC_GET, VC_GET_META, VC_GET_SHAPE, VC_START, VC_STOP, VC_TRIGGER, VC_GET_FRAME, VC_APPEND, VC_RESERVE, VC_CLOSE, VC_DRV_SHUTDOWN };

struct vm_frame
{
    int acq;             // acquisition number of the device when produced/received (counts starts)
    uint64_t frame_id, hardware_frame_id;
    struct ImageShape shape;
    size_t bytes_of_frame; // storage side only
    uint64_t ts_hw, ts_acq;
    uint32_t npix_bytes;
    uint8_t pix[VM_MAXPIX];
};

struct vm_cam_cfg
{
    uint32_t width, height; int type;     // shape offered (set() may override width/height from settings if >0)
    double exposure_ms;
    int fail_get_frame_at;                // index (per start) of the get_frame call that returns Device_Err, -1 never
    int fail_start_at;                    // index of start call (per device) that fails, -1 never
    int fail_shape_at;                    // index (per start) of the get_shape call that returns Device_Err, -1 never
    int fail_set;                         // set returns Device_Err
    int trigger;                          // frames gated by the software trigger
    // a camera whose region of interest changes during a run (the runtime asks for the shape before every frame and stamps
    // each frame with the shape delivered with it): from frame call `reshape_at` on the shape is reshape_w x reshape_h.
    // mode 0: it changes between two frame calls; mode 1: while frame call `reshape_at` is pending, i.e. after the caller
    // asked for the shape (only to a shape that needs no more bytes)
    int reshape_at, reshape_mode; uint32_t reshape_w, reshape_h;
};
struct vm_store_cfg
{
    double append_ms;                     // "slow storage"
    int fail_append_at;                   // index (per start) of the append call that reports a non-running state, -1 never
    int fail_start_at;
    int fail_set;
};

struct vm_dev
{
    int kind;     // 1 camera 2 storage
    int idx;
    void* page;   // device object
    size_t page_bytes;
    int open, closed_pages;
    int self_stops; // runs the device ended by itself (a failing append answers a non-running state)
    int opens, closes, starts, stops, started; // started: between a successful start and stop
    int calls_in_run, appends_in_run, shape_calls_in_run;
    int armed;    // the device's own last word was "armed": a set it accepted, or a stop; cleared by a start it refused, a rejected set, a failing append
    int acq;      // number of successful starts so far (1-based acquisition number while running)
    // camera
    uint64_t hw_id;
    int triggers, consumed, stop_flag, in_get_frame;
    struct vm_frame delivered[VM_MAXFRAMES]; int ndelivered;
    // storage
    struct vm_frame received[VM_MAXFRAMES]; int nreceived;
    int npackets, nreserve;
    struct ImageShape reserved;
};

struct vm_state
{
    struct vm_cam_cfg cam[VM_NCAM];
    struct vm_store_cfg store[VM_NSTORE];
    struct vm_dev dev[VM_NCAM + VM_NSTORE]; // cams then stores
    int driver_inits, driver_shutdowns;
    int fail_open[VM_NCAM + VM_NSTORE]; // the next open of this device is refused (busy / unplugged); counts down
    struct { uint8_t dev, call; int16_t arg; } log[VM_MAXCALLS];
    int nlog;
    int monitor;   // protocol monitor on (violations -> vs_fail)
    int strict_sequential; // single-threaded use (E3): a frame call after stop is a protocol violation too
    int packet_checks; // C05 checks in append on
    const char* prop; // property id used in monitor clauses
};
extern struct vm_state VM;

void vmock_reset_config(void);
struct Driver* vmock_driver_init(void (*reporter)(int, const char*, int, const char*, const char*));
uint8_t vmock_pixel(int acq, int stream, uint64_t frame, uint32_t i);
// independent computation of the padded frame size from width*height*bytes(type)
size_t vmock_expected_frame_bytes(uint32_t w, uint32_t h, int type);
// packet walker used by storage append and by monitoring clients: returns number of frames or -1 (+msg)
int vmock_check_packet(const uint8_t* beg, const uint8_t* end, char* msg, size_t n);
const char* vmock_call_name(int c);
struct vm_dev* vmock_cam(int i);
struct vm_dev* vmock_store(int i);

#ifdef __cplusplus
}
#endif
#endif
