// libacquire-driver-hdcam.so stand-in: forwards the driver entry point to the mock in the harness executable
struct Driver;
struct Driver* vmock_driver_init(void (*reporter)(int, const char*, int, const char*, const char*));
struct Driver* acquire_driver_init_v0(void (*reporter)(int, const char*, int, const char*, const char*)) { return vmock_driver_init(reporter); }
