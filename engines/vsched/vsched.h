// E2 vsched — controlled scheduler + stateless preemption-bounded schedule enumeration of the REAL
// runtime / HAL / platform layer / drivers.  The harness executable defines the pthread, sleep and
// clock entry points that linux/platform.c (the only user in the repository) calls; ELF
// interposition routes the calls of the real code - including dlopen'ed driver libraries - here.
// Exactly one controlled thread runs at a time; every blocking or visible synchronisation
// operation, every virtual sleep and every access to a registered "watched" racy flag is a
// scheduling point.
#ifndef VERIF_VSCHED_H
#define VERIF_VSCHED_H
#include <stddef.h>
#include <stdint.h>
#ifdef __cplusplus
extern "C" {
#endif

struct vs_scenario
{
    const char* name;
    const char* help;
    void (*setup)(void); // once, in the explorer's parent: single-threaded, deterministic
    void (*run)(void);   // in a forked child, as controlled thread 0
    void (*check)(void); // in the same child after run() returned and all threads finished: end-of-execution oracle
};
extern struct vs_scenario vs_scenarios[]; // terminated by {0}

// parameters "--param k=v" (scenario configuration; part of the replay file)
long vs_param(const char* key, long dflt);
const char* vs_param_str(const char* key, const char* dflt);

// violation: records clause+message in the result slot and ends this execution
void vs_fail(const char* clause, const char* fmt, ...) __attribute__((format(printf, 2, 3), noreturn));
// outcome hash (distinct outcomes are counted over the whole exploration)
void vs_observe(const void* data, size_t n);
void vs_observe_u64(uint64_t v);
// coverage events, 0..63; the explorer counts executions per event
void vs_event(int id);
// register a racy flag: loads/stores inside [addr,addr+n) become scheduling points (cov flavour)
void vs_watch(const volatile void* addr, size_t n, const char* name);
void vs_unwatch_all(void);
// name an address (mutex / condvar) for deadlock reports
void vs_name(const volatile void* addr, const char* name);
// controlled thread helpers for harness-side threads
int vs_spawn(void (*fn)(void*), void* arg, const char* name); // returns controlled thread id
void vs_join(int tid);
void vs_sleep_ms(double ms);
uint64_t vs_now_ns(void);
int vs_self(void);
int vs_active(void);
int vs_blocked_on_cond(int tid);      // is that thread asleep on a condition variable right now
int vs_live_threads(void);            // controlled threads other than the caller that have not finished
int vs_thread_count(void);            // controlled threads created so far (the next one gets this id)
unsigned vs_sleeps_of(int tid);        // completed or pending virtual sleeps of a thread
// trace annotation shown by --replay (no scheduling effect)
void vs_note(const char* fmt, ...) __attribute__((format(printf, 1, 2)));
// last error lines reported through the runtime's logger (harness reporter calls vs_log)
void vs_log(int is_error, const char* file, int line, const char* function, const char* msg);
// harness-level nondeterministic choice (all alternatives are explored, none costs a deviation under preemption bounding)
int vs_choose(int n);
// step count of the current execution
unsigned vs_steps(void);

// optional: classify a SIGSEGV/SIGBUS by faulting address (e.g. a closed device page); return a clause or 0
extern const char* (*vs_crash_classifier)(void* fault_addr, char* detail, size_t n);

int vs_main(int argc, char** argv);

#ifdef __cplusplus
}
#endif
#endif
