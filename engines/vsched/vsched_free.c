// Free-running implementation of the vsched.h harness API: real pthreads, real time, no scheduler.
// Used only for the ThreadSanitizer audit of the watch list (a cooperative scheduler's hand-offs are
// happens-before edges that would blind the detector): the same scenario bodies run under TSan, every
// reported race address is compared with the registered watch ranges.
#define _GNU_SOURCE
#include "vsched.h"
#include <pthread.h>
#include <stdarg.h>
#include <stdio.h>
#include <stdlib.h>
#include <string.h>
#include <time.h>
#include <unistd.h>

const char* (*vs_crash_classifier)(void*, char*, size_t);
static const char* g_params[64][2];
static int g_nparams;
static struct vs_scenario* SC;
static pthread_t TH[64];
static int NTH;

const char* vs_param_str(const char* key, const char* dflt)
{
    for (int i = g_nparams - 1; i >= 0; --i) if (!strcmp(g_params[i][0], key)) return g_params[i][1];
    return dflt;
}
long vs_param(const char* key, long dflt) { const char* v = vs_param_str(key, 0); return v ? strtol(v, 0, 0) : dflt; }
void vs_fail(const char* clause, const char* fmt, ...)
{
    va_list ap; va_start(ap, fmt);
    fprintf(stderr, "AUDIT-ORACLE %s: ", clause); vfprintf(stderr, fmt, ap); fprintf(stderr, "\n");
    va_end(ap);
    _exit(0); // the audit only collects race reports; oracle verdicts under real time are not used
}
void vs_observe(const void* d, size_t n) { (void)d; (void)n; }
void vs_observe_u64(uint64_t v) { (void)v; }
void vs_event(int id) { (void)id; }
void vs_watch(const volatile void* addr, size_t n, const char* name) { fprintf(stderr, "WATCH-RANGE %p %zu %s\n", (void*)addr, n, name); }
void vs_unwatch_all(void) {}
void vs_name(const volatile void* a, const char* n) { (void)a; (void)n; }
struct sa { void (*fn)(void*); void* arg; };
static void* tramp(void* p) { struct sa a = *(struct sa*)p; free(p); a.fn(a.arg); return 0; }
int vs_spawn(void (*fn)(void*), void* arg, const char* name)
{
    (void)name;
    struct sa* a = malloc(sizeof *a); a->fn = fn; a->arg = arg;
    pthread_create(&TH[NTH], 0, tramp, a);
    return NTH++;
}
void vs_join(int t) { pthread_join(TH[t], 0); }
void vs_sleep_ms(double ms) { struct timespec ts = { (time_t)(ms / 1000), (long)((ms - 1000 * (long)(ms / 1000)) * 1e6) }; nanosleep(&ts, 0); }
uint64_t vs_now_ns(void) { struct timespec t; clock_gettime(CLOCK_MONOTONIC, &t); return (uint64_t)t.tv_sec * 1000000000ull + (uint64_t)t.tv_nsec; }
int vs_self(void) { return 0; }
int vs_active(void) { return 1; }
int vs_thread_count(void) { return NTH + 1; }
int vs_live_threads(void) { return 1; }
int vs_blocked_on_cond(int tid) { (void)tid; return 1; }
unsigned vs_sleeps_of(int t) { (void)t; return 1000000; }
unsigned vs_steps(void) { return 0; }
int vs_choose(int n) { (void)n; return (int)vs_param("choice", 0); }
void vs_note(const char* fmt, ...) { (void)fmt; }
void vs_log(int e, const char* f, int l, const char* fn, const char* m) { (void)e; (void)f; (void)l; (void)fn; (void)m; }

int vs_main(int argc, char** argv)
{
    const char* scen = 0;
    for (int i = 1; i < argc; ++i) {
        if (!strcmp(argv[i], "--scenario") && i + 1 < argc) scen = argv[++i];
        else if (!strcmp(argv[i], "--param") && i + 1 < argc) {
            char* kv = strdup(argv[++i]); char* eq = strchr(kv, '=');
            if (eq) { *eq = 0; g_params[g_nparams][0] = kv; g_params[g_nparams][1] = eq + 1; ++g_nparams; }
        }
    }
    for (struct vs_scenario* s = vs_scenarios; s->name; ++s) if (scen && !strcmp(s->name, scen)) SC = s;
    if (!SC) { fprintf(stderr, "unknown scenario\n"); return 2; }
    alarm(60);
    if (SC->setup) SC->setup();
    SC->run();
    if (SC->check) SC->check();
    return 0;
}
