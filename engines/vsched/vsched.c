// E2 vsched: scheduler, libc/pthread interposers, explorer.  See vsched.h and DESIGN.md 2.2.
// This translation unit is never instrumented.
#define _GNU_SOURCE
#include "vsched.h"
#include <dlfcn.h>
#include <errno.h>
#include <linux/futex.h>
#include <pthread.h>
#include <sched.h>
#include <signal.h>
#include <stdarg.h>
#include <stdio.h>
#include <stdlib.h>
#include <string.h>
#include <sys/mman.h>
#include <sys/syscall.h>
#include <sys/time.h>
#include <sys/wait.h>
#include <time.h>
#include <unistd.h>

// ------------------------------------------------------------------------------------------------
// limits and shared result slot
// ------------------------------------------------------------------------------------------------
#define MAXT 24
#define MAXPOINTS 6000
#define MAXWATCH 96
#define MAXNAMES 64
#define NOTEBYTES 65536

enum { ST_RUNNING = 0, ST_OK, ST_VIOLATION, ST_DEADLOCK, ST_HORIZON, ST_CRASH, ST_HANG, ST_DIVERGED };
static const char* st_name[] = { "running", "ok", "violation", "deadlock", "horizon", "crash", "hang", "diverged" };

struct point { uint8_t n, nE, cur_in_E, chosen; };
struct result
{
    volatile int status;
    uint32_t steps, npoints;
    uint64_t outcome, events;
    char clause[96];
    char msg[1500];
    struct point pts[MAXPOINTS];
    uint32_t notes_len;
    char notes[NOTEBYTES];
};

static struct result* R;             // slot the current execution writes to (MAP_SHARED)
static uint8_t g_prefix[MAXPOINTS];
static uint32_t g_prefix_len;
static int g_trace;                  // replay mode: print every step
static unsigned g_max_steps = 4000;
static unsigned g_max_points = 3000;
static int g_extended; // confirming re-run of an execution that hit the horizon: 12x the steps, choice points beyond the array are taken by default and not recorded
static uint64_t g_tick_ns = 0;       // virtual time added per clock read
static int g_starve = 96; // consecutive steps after which a thread is switched out for free when others are enabled
static int g_spin = 64;   // consecutive steps alone (everyone else asleep) after which time passes to the next wake-up
static int g_skip_advances = 0;
static int g_timeskip = 1;           // allow choosing an unexpired sleeper (costs one deviation)
static uint8_t* g_cov; static size_t g_cov_n; // edge bitmap shared by all executions

// ------------------------------------------------------------------------------------------------
// scheduler state (valid in the child only)
// ------------------------------------------------------------------------------------------------
enum { BLK_NONE = 0, BLK_MUTEX, BLK_COND, BLK_JOIN, BLK_SLEEP };
struct vt
{
    int used, finished, joined, blk, jt, consec;
    unsigned last_run; // step at which the thread was last chosen
    int spun;          // was switched out as a spinner since the clock last moved
    unsigned nsleeps;
    void *o1, *o2;
    uint64_t wake;
    int go;
    pthread_t real;
    void* (*fn)(void*);
    void* arg;
    const char* opname;
    char name[40];
};
static struct vt T[MAXT];
static int NT, CUR, ACTIVE;
static uint64_t NOW = 1000000000ull;
static unsigned STEPS;
static __thread int my_tid = -1;

static struct { const volatile char* a; size_t n; const char* name; } W[MAXWATCH];
static int NW;
static struct { const volatile void* a; const char* name; } NAMES[MAXNAMES];
static int NNAMES;

static int (*real_create)(pthread_t*, const pthread_attr_t*, void* (*)(void*), void*);
static int (*real_join)(pthread_t, void**);
static void resolve_real(void)
{
    if (!real_create) {
        real_create = dlsym(RTLD_NEXT, "pthread_create");
        real_join = dlsym(RTLD_NEXT, "pthread_join");
    }
}

static void fwake(int* w)
{
    __atomic_store_n(w, 1, __ATOMIC_SEQ_CST);
    syscall(SYS_futex, w, FUTEX_WAKE | FUTEX_PRIVATE_FLAG, 1, 0, 0, 0);
}
static void fpark(int* w)
{
    while (!__atomic_load_n(w, __ATOMIC_SEQ_CST))
        syscall(SYS_futex, w, FUTEX_WAIT | FUTEX_PRIVATE_FLAG, 0, 0, 0, 0);
    __atomic_store_n(w, 0, __ATOMIC_SEQ_CST);
}

static const char* addr_name(const volatile void* a, char* buf, size_t n)
{
    for (int i = 0; i < NNAMES; ++i)
        if (NAMES[i].a == a) return NAMES[i].name;
    snprintf(buf, n, "%p", (void*)a);
    return buf;
}

static void notef(const char* fmt, ...)
{
    if (!R) return;
    va_list ap;
    va_start(ap, fmt);
    if (R->notes_len < NOTEBYTES - 400) {
        int k = vsnprintf(R->notes + R->notes_len, 380, fmt, ap);
        if (k > 379) k = 379;
        if (k > 0) R->notes_len += (uint32_t)k;
        R->notes[R->notes_len++] = '\n';
    }
    va_end(ap);
}

static void describe_threads(char* out, size_t n)
{
    size_t o = 0;
    char b1[32], b2[32];
    for (int i = 0; i < NT && o + 160 < n; ++i) {
        struct vt* t = &T[i];
        if (!t->used) continue;
        const char* st = t->finished ? "finished" : "";
        switch (t->finished ? -1 : t->blk) {
            case BLK_NONE: o += snprintf(out + o, n - o, "[T%d %s runnable at %s] ", i, t->name, t->opname ? t->opname : "?"); break;
            case BLK_MUTEX: o += snprintf(out + o, n - o, "[T%d %s waits for mutex %s held by T%d] ", i, t->name, addr_name(t->o1, b1, sizeof b1), *(int*)t->o1 - 1); break;
            case BLK_COND: o += snprintf(out + o, n - o, "[T%d %s sleeps on condvar %s] ", i, t->name, addr_name(t->o1, b1, sizeof b1)); break;
            case BLK_JOIN: o += snprintf(out + o, n - o, "[T%d %s joins T%d %s] ", i, t->name, t->jt, T[t->jt].name); break;
            case BLK_SLEEP: o += snprintf(out + o, n - o, "[T%d %s sleeping until +%.3fms] ", i, t->name, (t->wake - NOW) / 1e6); break;
            default: o += snprintf(out + o, n - o, "[T%d %s %s] ", i, t->name, st); break;
        }
        (void)b2;
    }
}

static void finish(int status, const char* clause, const char* msg) __attribute__((noreturn));
static void finish(int status, const char* clause, const char* msg)
{
    if (R && R->status == ST_RUNNING) {
        R->steps = STEPS;
        if (clause) snprintf(R->clause, sizeof R->clause, "%s", clause);
        if (msg) snprintf(R->msg, sizeof R->msg, "%s", msg);
        __atomic_store_n(&R->status, status, __ATOMIC_SEQ_CST);
    }
    _exit(0);
}

static int enabled(const struct vt* t)
{
    if (!t->used || t->finished) return 0;
    switch (t->blk) {
        case BLK_NONE: return 1;
        case BLK_MUTEX: return *(volatile int*)t->o1 == 0;
        case BLK_COND: return 0;
        case BLK_JOIN: return T[t->jt].finished;
        case BLK_SLEEP: return NOW >= t->wake;
    }
    return 0;
}

// the heart: called by the running thread (my_tid == CUR) after it has set its own blk/opname
static void schedule(void)
{
    const int me = my_tid;
    for (;;) {
        if (++STEPS > g_max_steps) {
            char d[1200];
            describe_threads(d, sizeof d);
            finish(ST_HORIZON, "step-horizon", d);
        }
        int cand[2 * MAXT], nE = 0, n = 0;
        int me_en = (!T[me].finished) && enabled(&T[me]);
        int starving = 0;
        int others = 0;
        for (int i = 0; i < NT; ++i)
            if (i != me && enabled(&T[i])) ++others;
        if (me_en && others && T[me].consec >= g_starve) { // a spinner is switched out for free (legal schedule, keeps spin loops finite)
            starving = 1; T[me].consec = 0; T[me].spun = 1;
            // every runnable thread has used up a whole burst since the clock last moved: they all spin (on the clock, on a flag, or
            // polling an empty queue without sleeping) while somebody sleeps - time passes to the next wake-up
            int all = 1;
            for (int i = 0; i < NT; ++i) if (enabled(&T[i]) && !T[i].spun) all = 0;
            if (all) {
                uint64_t mw = ~0ull;
                for (int i = 0; i < NT; ++i)
                    if (T[i].used && !T[i].finished && T[i].blk == BLK_SLEEP && NOW < T[i].wake && T[i].wake < mw) mw = T[i].wake;
                for (int i = 0; i < NT; ++i) T[i].spun = 0;
                if (mw != ~0ull) { NOW = mw; continue; }
            }
        }
        else if (me_en && !others && T[me].consec >= g_spin) {
            {
                // only sleepers besides the spinner: let time pass to the next wake-up (it spins on the clock or on a flag)
                uint64_t mw = ~0ull;
                for (int i = 0; i < NT; ++i)
                    if (T[i].used && !T[i].finished && T[i].blk == BLK_SLEEP && NOW < T[i].wake && T[i].wake < mw) mw = T[i].wake;
                T[me].consec = 0;
                for (int i = 0; i < NT; ++i) T[i].spun = 0;
                if (mw != ~0ull) { NOW = mw; continue; }
                NOW += 1000000ull; // nobody else will ever move the clock: a busy-wait on the clock sees time pass (1 ms per burst)
            }
        }
        if (me_en && !starving) cand[n++] = me;
        for (int i = 0; i < NT; ++i)
            if (i != me && enabled(&T[i])) cand[n++] = i;
        if (me_en && starving) {
            // fairness of the default schedule: the spinner yields to the enabled thread that has waited longest (two spinners
            // yielding to each other by id would starve a third, runnable thread for ever - no OS scheduler does that)
            for (int a = 1; a < n; ++a)
                for (int b = a; b > 0 && T[cand[b]].last_run < T[cand[b - 1]].last_run; --b) { int t = cand[b]; cand[b] = cand[b - 1]; cand[b - 1] = t; }
            cand[n++] = me;
        }
        nE = n;
        uint64_t minwake = ~0ull;
        int nsleep = 0, first_sleeper = -1;
        for (int i = 0; i < NT; ++i)
            if (T[i].used && !T[i].finished && T[i].blk == BLK_SLEEP && NOW < T[i].wake) {
                ++nsleep;
                if (T[i].wake < minwake) { minwake = T[i].wake; first_sleeper = i; }
            }
        // time skip: the next sleeper to wake may be chosen although others could run (they were slow);
        // later sleepers are reached by skipping again
        if (g_timeskip && first_sleeper >= 0 && nE > 0) cand[n++] = first_sleeper;
        if (nE == 0) {
            if (nsleep) { NOW = minwake; for (int i = 0; i < NT; ++i) T[i].spun = 0; continue; } // everybody waits: time passes
            int unfinished = 0;
            for (int i = 0; i < NT; ++i) unfinished += T[i].used && !T[i].finished;
            char d[1200];
            describe_threads(d, sizeof d);
            if (unfinished) finish(ST_DEADLOCK, "deadlock", d);
            finish(ST_DIVERGED, "internal-no-thread", d);
        }
        int chosen = 0;
        if (n > 1) {
            uint32_t k = R->npoints;
            if (g_extended && k >= MAXPOINTS - 1) {
                chosen = 0; // beyond what is recorded: default choice
            } else {
                if (k >= g_max_points) {
                    char d[1200];
                    describe_threads(d, sizeof d);
                    finish(ST_HORIZON, "step-horizon", d);
                }
                if (k < g_prefix_len) {
                    chosen = g_prefix[k];
                    if (chosen >= n) finish(ST_DIVERGED, "replay-diverged", "recorded choice out of range while replaying a prefix");
                }
                R->pts[k].n = (uint8_t)n; R->pts[k].nE = (uint8_t)nE; R->pts[k].cur_in_E = (uint8_t)(me_en && !starving); R->pts[k].chosen = (uint8_t)chosen;
                R->npoints = k + 1;
            }
        }
        int c = cand[chosen];
        if (chosen >= nE) {
            // early wake-up deviation: the sleeper resumes although runnable threads exist, i.e. they were slow.
            // g_skip_advances=1: the clock jumps to its deadline (realistic clock, but every throttled poller
            // then misses its deadline and busy-spins for the rest of the run); default 0: the clock stays, which
            // only under-reports elapsed time - no property depends on a minimum sleep duration.
            if (g_skip_advances) NOW = T[c].wake; else T[c].wake = NOW;
        }
        if (g_trace) {
            char b1[32];
            notef("step %u t=%.3fms: T%d %s -> %s%s%s   [choice %d of %d%s]", STEPS, (NOW - 1000000000ull) / 1e6, c, T[c].name, T[c].opname ? T[c].opname : "",
                  T[c].o1 ? " " : "", T[c].o1 ? addr_name(T[c].o1, b1, sizeof b1) : "", chosen, n, n > 1 ? "" : ", forced");
        }
        T[c].last_run = STEPS;
        if (c == me) { T[me].consec++; return; }
        T[me].consec = 0;
        CUR = c;
        fwake(&T[c].go);
        if (T[me].finished) return; // the real thread exits
        fpark(&T[me].go);
        return;
    }
}

static void point(int blk, void* o1, void* o2, const char* opname)
{
    struct vt* t = &T[my_tid];
    t->blk = blk; t->o1 = o1; t->o2 = o2; t->opname = opname;
    schedule();
    t->blk = BLK_NONE; t->opname = "running";
}

// ------------------------------------------------------------------------------------------------
// interposed entry points
// ------------------------------------------------------------------------------------------------
static int controlled(void) { return ACTIVE && my_tid >= 0; }

int pthread_mutex_init(pthread_mutex_t* m, const pthread_mutexattr_t* a)
{
    int kind = 0;
    if (a) pthread_mutexattr_gettype(a, &kind);
    memset(m, 0, sizeof *m);
    m->__data.__kind = kind; // recursion is honoured (libstdc++ uses recursive mutexes internally)
    return 0;
}
static int is_recursive(pthread_mutex_t* m) { return (m->__data.__kind & 3) == PTHREAD_MUTEX_RECURSIVE_NP; }
int pthread_mutex_destroy(pthread_mutex_t* m) { (void)m; return 0; }
int pthread_cond_init(pthread_cond_t* c, const pthread_condattr_t* a) { (void)a; memset(c, 0, sizeof *c); return 0; }
int pthread_cond_destroy(pthread_cond_t* c) { (void)c; return 0; }

int pthread_mutex_lock(pthread_mutex_t* m)
{
    volatile int* w = (volatile int*)m;
    int me = my_tid >= 0 ? my_tid : 0;
    if (*w == me + 1 && is_recursive(m)) { m->__data.__count++; return 0; }
    if (controlled()) {
        if (*w == me + 1) {
            char d[1200], b[32];
            snprintf(d, sizeof d, "T%d %s locks mutex %s it already holds; ", me, T[me].name, addr_name(m, b, sizeof b));
            describe_threads(d + strlen(d), sizeof d - strlen(d));
            finish(ST_DEADLOCK, "self-deadlock", d);
        }
        point(BLK_MUTEX, m, 0, "lock");
    } else if (*w) {
        fprintf(stderr, "vsched: mutex %p held outside the scheduler\n", (void*)m);
        abort();
    }
    *w = me + 1;
    return 0;
}
int pthread_mutex_trylock(pthread_mutex_t* m)
{
    volatile int* w = (volatile int*)m;
    int me = my_tid >= 0 ? my_tid : 0;
    if (*w == me + 1 && is_recursive(m)) { m->__data.__count++; return 0; }
    if (controlled()) point(BLK_NONE, m, 0, "trylock");
    if (*w) return EBUSY;
    *w = me + 1;
    return 0;
}
int pthread_mutex_unlock(pthread_mutex_t* m)
{
    volatile int* w = (volatile int*)m;
    if (is_recursive(m) && m->__data.__count) { m->__data.__count--; return 0; }
    *w = 0; // no point needed before a release: it only enables others (DESIGN 2.2)
    return 0;
}
int pthread_cond_wait(pthread_cond_t* c, pthread_mutex_t* m)
{
    volatile int* w = (volatile int*)m;
    int me = my_tid >= 0 ? my_tid : 0;
    if (!controlled()) {
        fprintf(stderr, "vsched: pthread_cond_wait outside the scheduler would never return\n");
        abort();
    }
    // a scheduling point BEFORE the wait: the caller evaluated its predicate earlier; a notifier that does not take the
    // mutex (channel_accept_writes) can change the predicate and broadcast right here, before this thread is a waiter
    point(BLK_NONE, c, m, "cond_wait-enter");
    *w = 0;                              // release and sleep atomically
    point(BLK_COND, c, m, "cond_wait");  // forced switch; resumed only after a broadcast moved us to the mutex
    *w = me + 1;
    return 0;
}
int pthread_cond_timedwait(pthread_cond_t* c, pthread_mutex_t* m, const struct timespec* ts) { (void)ts; return pthread_cond_wait(c, m); }
static int cond_wake(pthread_cond_t* c, int all)
{
    if (controlled()) point(BLK_NONE, c, 0, all ? "cond_broadcast" : "cond_signal");
    for (int i = 0; i < NT; ++i)
        if (T[i].used && !T[i].finished && T[i].blk == BLK_COND && T[i].o1 == (void*)c) {
            T[i].blk = BLK_MUTEX; T[i].o1 = T[i].o2; T[i].o2 = 0; T[i].opname = "reacquire-after-wait";
            if (!all) break;
        }
    return 0;
}
int pthread_cond_broadcast(pthread_cond_t* c) { return cond_wake(c, 1); }
int pthread_cond_signal(pthread_cond_t* c) { return cond_wake(c, 0); }

static void* trampoline(void* p)
{
    struct vt* t = p;
    my_tid = (int)(t - T);
    fpark(&t->go);
    t->blk = BLK_NONE; t->opname = "running";
    t->fn(t->arg);
    t->finished = 1;
    t->opname = "exit";
    schedule(); // hand over; returns immediately for a finished thread
    return 0;
}

static const char* fn_name(void* fn, char* buf, size_t n)
{
    Dl_info di;
    if (dladdr(fn, &di) && di.dli_sname) snprintf(buf, n, "%s", di.dli_sname);
    else snprintf(buf, n, "fn@%p", fn);
    return buf;
}

static int spawn_named(pthread_t* out, void* (*fn)(void*), void* arg, const char* name)
{
    resolve_real();
    if (NT >= MAXT) finish(ST_DIVERGED, "internal-too-many-threads", "MAXT exceeded");
    struct vt* t = &T[NT];
    memset(t, 0, sizeof *t);
    t->used = 1; t->fn = fn; t->arg = arg; t->blk = BLK_NONE; t->opname = "start";
    if (name) snprintf(t->name, sizeof t->name, "%s", name);
    else {
        fn_name((void*)fn, t->name, sizeof t->name);
        for (int i = 0; i < NNAMES; ++i) // a name registered for the thread's argument (e.g. &video[0].source) wins
            if (NAMES[i].a == arg) snprintf(t->name, sizeof t->name, "%s", NAMES[i].name);
    }
    int id = NT++;
    pthread_attr_t at;
    pthread_attr_init(&at);
    pthread_attr_setstacksize(&at, 1 << 20);
    int rc = real_create(&t->real, &at, trampoline, t);
    pthread_attr_destroy(&at);
    if (rc) finish(ST_DIVERGED, "internal-pthread-create", "real pthread_create failed");
    if (out) *out = t->real;
    if (g_trace) notef("        T%d creates T%d %s", my_tid, id, t->name);
    return id;
}

int pthread_create(pthread_t* out, const pthread_attr_t* a, void* (*fn)(void*), void* arg)
{
    resolve_real();
    if (!controlled()) return real_create(out, a, fn, arg);
    spawn_named(out, fn, arg, 0);
    return 0;
}
int pthread_join(pthread_t th, void** ret)
{
    resolve_real();
    if (controlled()) {
        for (int i = NT - 1; i >= 0; --i) // newest first: glibc recycles pthread_t values of joined threads
            if (T[i].used && !T[i].joined && pthread_equal(T[i].real, th)) {
                T[my_tid].jt = i;
                point(BLK_JOIN, 0, 0, "join");
                if (ret) *ret = 0;
                T[i].joined = 1;
                return real_join(th, 0);
            }
    }
    return real_join(th, ret);
}

static void vsleep_ns(uint64_t d)
{
    if (!controlled()) return; // setup phase: sleeping is pointless
    T[my_tid].wake = NOW + d;
    T[my_tid].nsleeps++;
    point(BLK_SLEEP, 0, 0, "sleep");
}
int nanosleep(const struct timespec* req, struct timespec* rem)
{
    if (rem) { rem->tv_sec = 0; rem->tv_nsec = 0; }
    vsleep_ns((uint64_t)req->tv_sec * 1000000000ull + (uint64_t)req->tv_nsec);
    return 0;
}
int usleep(useconds_t us) { vsleep_ns((uint64_t)us * 1000ull); return 0; }
unsigned sleep(unsigned s) { vsleep_ns((uint64_t)s * 1000000000ull); return 0; }
int clock_gettime(clockid_t id, struct timespec* ts)
{
    (void)id;
    NOW += g_tick_ns;
    ts->tv_sec = (time_t)(NOW / 1000000000ull);
    ts->tv_nsec = (long)(NOW % 1000000000ull);
    return 0;
}

// ---- watched racy flags (clang -fsanitize-coverage=trace-loads,trace-stores callbacks) ----------
static inline void access_cb(const volatile void* p, size_t n, int is_store)
{
    if (!ACTIVE || !NW || my_tid < 0) return;
    const volatile char* a = p;
    for (int i = 0; i < NW; ++i)
        if (a < W[i].a + W[i].n && a + n > W[i].a) {
            if (NT > 1) point(BLK_NONE, (void*)W[i].a, 0, is_store ? "store" : "load");
            return;
        }
}
void __sanitizer_cov_load1(uint8_t* a) { access_cb(a, 1, 0); }
void __sanitizer_cov_load2(uint16_t* a) { access_cb(a, 2, 0); }
void __sanitizer_cov_load4(uint32_t* a) { access_cb(a, 4, 0); }
void __sanitizer_cov_load8(uint64_t* a) { access_cb(a, 8, 0); }
void __sanitizer_cov_load16(void* a) { access_cb(a, 16, 0); }
void __sanitizer_cov_store1(uint8_t* a) { access_cb(a, 1, 1); }
void __sanitizer_cov_store2(uint16_t* a) { access_cb(a, 2, 1); }
void __sanitizer_cov_store4(uint32_t* a) { access_cb(a, 4, 1); }
void __sanitizer_cov_store8(uint64_t* a) { access_cb(a, 8, 1); }
void __sanitizer_cov_store16(void* a) { access_cb(a, 16, 1); }
static uint32_t g_nguards;
void __sanitizer_cov_trace_pc_guard_init(uint32_t* start, uint32_t* stop)
{
    if (start == stop || *start) return;
    for (uint32_t* x = start; x < stop; ++x) *x = ++g_nguards;
}
void __sanitizer_cov_trace_pc_guard(uint32_t* g)
{
    uint32_t i = *g;
    if (g_cov && i < g_cov_n) g_cov[i] = 1;
}

// ------------------------------------------------------------------------------------------------
// harness API
// ------------------------------------------------------------------------------------------------
static const char* g_params[64][2];
static int g_nparams;
const char* vs_param_str(const char* key, const char* dflt)
{
    for (int i = g_nparams - 1; i >= 0; --i)
        if (!strcmp(g_params[i][0], key)) return g_params[i][1];
    return dflt;
}
long vs_param(const char* key, long dflt)
{
    const char* v = vs_param_str(key, 0);
    return v ? strtol(v, 0, 0) : dflt;
}
void vs_fail(const char* clause, const char* fmt, ...)
{
    char m[1400];
    va_list ap;
    va_start(ap, fmt);
    vsnprintf(m, sizeof m, fmt, ap);
    va_end(ap);
    finish(ST_VIOLATION, clause, m);
}
void vs_observe(const void* data, size_t n)
{
    const uint8_t* p = data;
    uint64_t h = R->outcome ? R->outcome : 1469598103934665603ull;
    for (size_t i = 0; i < n; ++i) { h ^= p[i]; h *= 1099511628211ull; }
    R->outcome = h ? h : 1;
}
void vs_observe_u64(uint64_t v) { vs_observe(&v, sizeof v); }
void vs_event(int id) { if (R && id >= 0 && id < 64) R->events |= 1ull << id; }
void vs_watch(const volatile void* addr, size_t n, const char* name)
{
    for (int i = 0; i < NW; ++i) if (W[i].a == addr && W[i].n == n) return; // already watched
    if (NW < MAXWATCH) { W[NW].a = addr; W[NW].n = n; W[NW].name = name; ++NW; }
    vs_name(addr, name);
}
void vs_unwatch_all(void) { NW = 0; }
void vs_name(const volatile void* addr, const char* name)
{
    for (int i = 0; i < NNAMES; ++i) if (NAMES[i].a == addr) { NAMES[i].name = name; return; }
    if (NNAMES < MAXNAMES) { NAMES[NNAMES].a = addr; NAMES[NNAMES].name = name; ++NNAMES; }
}
int vs_choose(int n)
{
    if (n <= 1) return 0;
    if (n > 250) n = 250;
    uint32_t k = R->npoints;
    if (k >= g_max_points) finish(ST_HORIZON, "step-horizon", "too many choice points");
    int chosen = 0;
    if (k < g_prefix_len) { chosen = g_prefix[k]; if (chosen >= n) finish(ST_DIVERGED, "replay-diverged", "recorded harness choice out of range"); }
    R->pts[k].n = (uint8_t)n; R->pts[k].nE = (uint8_t)n; R->pts[k].cur_in_E = 0; R->pts[k].chosen = (uint8_t)chosen;
    R->npoints = k + 1;
    if (g_trace) notef("        harness choice %d of %d", chosen, n);
    return chosen;
}
struct spawn_arg { void (*fn)(void*); void* arg; };
static void* spawn_tramp(void* p) { struct spawn_arg a = *(struct spawn_arg*)p; free(p); a.fn(a.arg); return 0; }
int vs_spawn(void (*fn)(void*), void* arg, const char* name)
{
    struct spawn_arg* a = malloc(sizeof *a);
    a->fn = fn; a->arg = arg;
    return spawn_named(0, spawn_tramp, a, name);
}
void vs_join(int tid)
{
    resolve_real();
    T[my_tid].jt = tid;
    point(BLK_JOIN, 0, 0, "join");
    T[tid].joined = 1;
    real_join(T[tid].real, 0);
}
void vs_sleep_ms(double ms) { vsleep_ns((uint64_t)(ms * 1e6)); }
uint64_t vs_now_ns(void) { return NOW; }
int vs_self(void) { return my_tid; }
int vs_thread_count(void) { return NT; }
int vs_blocked_on_cond(int tid) { return tid >= 0 && tid < NT && T[tid].used && !T[tid].finished && T[tid].blk == BLK_COND; }
int vs_live_threads(void) { int n = 0; for (int i = 0; i < NT; ++i) n += T[i].used && !T[i].finished && i != my_tid; return n; }
unsigned vs_sleeps_of(int tid) { return (tid >= 0 && tid < NT) ? T[tid].nsleeps : 0; }
int vs_active(void) { return ACTIVE; }
unsigned vs_steps(void) { return STEPS; }
void vs_note(const char* fmt, ...)
{
    if (!g_trace) return;
    char m[360];
    va_list ap;
    va_start(ap, fmt);
    vsnprintf(m, sizeof m, fmt, ap);
    va_end(ap);
    notef("        T%d: %s", my_tid, m);
}
static char g_lastlog[6][200];
static int g_nlog;
void vs_log(int is_error, const char* file, int line, const char* function, const char* msg)
{
    if (g_trace) notef("        T%d log%s %s:%d %s", my_tid, is_error ? "(E)" : "", function, line, msg);
    if (is_error) { snprintf(g_lastlog[g_nlog % 6], 200, "%s:%d %s", function, line, msg); ++g_nlog; }
    (void)file;
}

// ------------------------------------------------------------------------------------------------
// one execution in a forked child
// ------------------------------------------------------------------------------------------------
static struct vs_scenario* SC;

const char* (*vs_crash_classifier)(void* fault_addr, char* detail, size_t n);
static void crash_handler(int sig, siginfo_t* si, void* uc)
{
    (void)uc;
    // runs on the faulting thread; report and leave
    if (R && R->status == ST_RUNNING) {
        R->steps = STEPS;
        char extra[300] = "";
        const char* cl = (vs_crash_classifier && (sig == SIGSEGV || sig == SIGBUS)) ? vs_crash_classifier(si->si_addr, extra, sizeof extra) : 0;
        if (cl) snprintf(R->clause, sizeof R->clause, "%s:in-%s", cl, my_tid >= 0 && T[my_tid].name[0] ? T[my_tid].name : "unknown-thread"); // which thread faulted is part of the finding's identity
        else snprintf(R->clause, sizeof R->clause, "crash-signal-%d", sig);
        char d[1200];
        int o = snprintf(d, sizeof d, "%s signal %d (%s) at %p in T%d %s; ", extra, sig, strsignal(sig), si->si_addr, my_tid, my_tid >= 0 ? T[my_tid].name : "?");
        describe_threads(d + o, sizeof d - o);
        snprintf(R->msg, sizeof R->msg, "%s", d);
        __atomic_store_n(&R->status, ST_CRASH, __ATOMIC_SEQ_CST);
    }
    _exit(0);
}

static void child_main(void)
{
    struct sigaction sa;
    memset(&sa, 0, sizeof sa);
    sa.sa_sigaction = crash_handler;
    static char altstack[65536];
    stack_t ss = { .ss_sp = altstack, .ss_size = sizeof altstack, .ss_flags = 0 };
    sigaltstack(&ss, 0);
    sa.sa_flags = SA_ONSTACK | SA_SIGINFO;
    sigaction(SIGSEGV, &sa, 0); sigaction(SIGBUS, &sa, 0); sigaction(SIGFPE, &sa, 0); sigaction(SIGILL, &sa, 0); sigaction(SIGABRT, &sa, 0);
    alarm((unsigned)vs_param("watchdog_s", 20));
    memset(T, 0, sizeof T);
    NT = 1; T[0].used = 1; snprintf(T[0].name, sizeof T[0].name, "client"); T[0].opname = "running";
    my_tid = 0; CUR = 0; STEPS = 0; ACTIVE = 1;
    SC->run();
    // wait for every controlled thread
    for (int i = 1; i < NT; ++i)
        if (T[i].used && !T[i].finished) { T[0].jt = i; point(BLK_JOIN, 0, 0, "final-join"); }
    ACTIVE = 0;
    if (SC->check) SC->check();
    R->steps = STEPS;
    __atomic_store_n(&R->status, ST_OK, __ATOMIC_SEQ_CST);
    _exit(0);
}

// runs one execution with the given choice prefix; result in *res (shared memory)
static void run_one(struct result* res, const uint8_t* prefix, uint32_t len)
{
    res->status = ST_RUNNING; res->steps = 0; res->npoints = 0; res->outcome = 0; res->events = 0; res->clause[0] = 0; res->msg[0] = 0; res->notes_len = 0;
    memcpy(g_prefix, prefix, len);
    g_prefix_len = len;
    R = res;
    pid_t p = fork();
    if (p < 0) { perror("fork"); exit(2); }
    if (p == 0) child_main();
    int st = 0;
    while (waitpid(p, &st, 0) < 0 && errno == EINTR) {}
    R = 0;
    if (res->status == ST_RUNNING) {
        if (WIFSIGNALED(st) && WTERMSIG(st) == SIGALRM) {
            res->status = ST_HANG; snprintf(res->clause, sizeof res->clause, "hang"); snprintf(res->msg, sizeof res->msg, "execution exceeded the wall-clock watchdog (a thread spinning without scheduling points?)");
        } else {
            res->status = ST_CRASH; snprintf(res->clause, sizeof res->clause, "crash-exit");
            snprintf(res->msg, sizeof res->msg, "child ended without a verdict (wait status 0x%x)", st);
        }
    }
}

// ------------------------------------------------------------------------------------------------
// explorer: iterative preemption bounding, DFS over choice prefixes, W worker processes
// ------------------------------------------------------------------------------------------------
#define MAXPREFIX 3000 // choice points of one execution at which the search branches (== g_max_points: beyond it the execution is a horizon)
struct item { uint16_t len, cost; uint8_t ch[MAXPREFIX]; };
#define POOLCAP 32768
#define MAXVIOL 48
#define MAXOUT 8192
struct viol { int status; uint16_t cost; uint32_t len; char clause[96]; char msg[1500]; uint8_t ch[MAXPREFIX]; uint32_t count; int confirmed; };
struct shared
{
    volatile int lock;
    volatile long pending;     // items that exist anywhere (pool, local stacks, in flight)
    volatile int stop;         // deadline / violation cap reached
    volatile int capped;
    int npool;
    struct item pool[POOLCAP];
    // results
    volatile unsigned long long executions, steps, points, maxpoints, truncated, long_runs;
    volatile int livelock_confirmed, extensions;
    volatile unsigned long long status_count[8];
    volatile unsigned long long event_count[64];
    int nviol;
    struct viol viol[MAXVIOL];
    int nout; uint64_t out[MAXOUT];
    unsigned long long out_overflow;
    int unconfirmed;
};
static struct shared* S;
static int g_bound = 1;
static unsigned long long g_max_exec = 0;
static double g_deadline = 0;
static int g_viol_cap = 8;

static void slock(void) { while (__atomic_exchange_n(&S->lock, 1, __ATOMIC_ACQUIRE)) { while (S->lock) __builtin_ia32_pause(); } }
static void sunlock(void) { __atomic_store_n(&S->lock, 0, __ATOMIC_RELEASE); }
static double now_real(void)
{
    struct timeval tv;
    gettimeofday(&tv, 0);
    return tv.tv_sec + tv.tv_usec * 1e-6;
}

static int g_delay_mode; // 0: preemption bounding (switches at blocking points are free); 1: delay bounding (every non-default choice costs 1)
static int pt_cost(const struct point* p, int alt)
{
    if (alt == 0) return 0;
    if (g_delay_mode) return 1;
    if (alt >= p->nE) return 1;      // time skip
    return p->cur_in_E ? 1 : 0;      // preemption of a thread that could have continued
}

static void record_violation(struct result* r, const struct item* it, int confirmed)
{
    slock();
    int found = -1;
    for (int i = 0; i < S->nviol; ++i)
        if (!strcmp(S->viol[i].clause, r->clause)) { found = i; break; }
    if (found >= 0) S->viol[found].count++;
    else if (S->nviol < MAXVIOL) {
        struct viol* v = &S->viol[S->nviol++];
        v->status = r->status; v->count = 1; v->confirmed = confirmed;
        snprintf(v->clause, sizeof v->clause, "%s", r->clause);
        snprintf(v->msg, sizeof v->msg, "%s", r->msg);
        uint32_t n = r->npoints < MAXPREFIX ? r->npoints : MAXPREFIX;
        // store the full choice list, trimmed of trailing defaults
        while (n > 0 && r->pts[n - 1].chosen == 0) --n;
        v->len = n;
        for (uint32_t i = 0; i < n; ++i) v->ch[i] = r->pts[i].chosen;
        int c = 0;
        for (uint32_t i = 0; i < n; ++i) c += pt_cost(&r->pts[i], r->pts[i].chosen);
        v->cost = (uint16_t)c;
        (void)it;
    }
    unsigned long long total = 0;
    for (int i = 0; i < S->nviol; ++i) total += S->viol[i].count;
    if (S->nviol >= g_viol_cap || total > 2000) S->stop = 1;
    sunlock();
}

static void worker(int wid, struct result* res, struct result* res2)
{
    static struct item stack[4096];
    int sp = 0;
    (void)wid;
    for (;;) {
        struct item cur;
        int have = 0;
        if (sp > 0) { cur = stack[--sp]; have = 1; }
        else {
            slock();
            if (S->npool > 0) { cur = S->pool[--S->npool]; have = 1; }
            sunlock();
        }
        if (!have) {
            if (__atomic_load_n(&S->pending, __ATOMIC_SEQ_CST) <= 0) return;
            struct timespec ts = { 0, 200000 };
            syscall(SYS_nanosleep, &ts, 0); // the libc wrappers are interposed (virtual time)
            continue;
        }
        if (S->stop) { __atomic_fetch_sub(&S->pending, 1, __ATOMIC_SEQ_CST); __atomic_store_n(&S->capped, 1, __ATOMIC_SEQ_CST); continue; }
        run_one(res, cur.ch, cur.len);
        __atomic_fetch_add(&S->executions, 1, __ATOMIC_RELAXED);
        __atomic_fetch_add(&S->steps, res->steps, __ATOMIC_RELAXED);
        __atomic_fetch_add(&S->points, res->npoints, __ATOMIC_RELAXED);
        __atomic_fetch_add(&S->status_count[res->status & 7], 1, __ATOMIC_RELAXED);
        for (int e = 0; e < 64; ++e) if (res->events >> e & 1) __atomic_fetch_add(&S->event_count[e], 1, __ATOMIC_RELAXED);
        if (res->npoints > S->maxpoints) S->maxpoints = res->npoints;
        if (res->status == ST_DIVERGED) {
            fprintf(stderr, "vsched: internal error: %s %s\n", res->clause, res->msg);
            record_violation(res, &cur, 0);
            S->stop = 1;
        } else if (res->status != ST_OK) {
            // replay before report: the same full choice list must fail the same way
            uint8_t full[MAXPREFIX];
            uint32_t n = res->npoints < MAXPREFIX ? res->npoints : MAXPREFIX;
            for (uint32_t i = 0; i < n; ++i) full[i] = res->pts[i].chosen;
            if (res->status == ST_HORIZON) {
                // an execution that is merely long is not a livelock: before it is reported it is re-run alone with 12 times the
                // step limit (default choices beyond the recorded ones).  Finishes -> not a violation (the search did not branch
                // beyond the cap: exhaustive=false); other failure -> that failure; still running -> livelock.  After the first
                // confirmed livelock of this configuration, or after 4 extensions that merely finished, no further extensions are run.
                int ext = 0;
                slock(); if (!S->livelock_confirmed && S->extensions < 4) { ext = 1; S->extensions++; } sunlock();
                if (ext) {
                    const unsigned ms = g_max_steps, mp = g_max_points;
                    g_extended = 1; g_max_steps = ms * 12; g_max_points = MAXPOINTS - 1;
                    run_one(res2, full, n);
                    g_extended = 0; g_max_steps = ms; g_max_points = mp;
                    if (res2->status == ST_HORIZON) { slock(); S->livelock_confirmed = 1; sunlock(); record_violation(res, &cur, 1); }
                    else if (res2->status == ST_OK) { __atomic_fetch_add(&S->truncated, 1, __ATOMIC_RELAXED); __atomic_fetch_add(&S->long_runs, 1, __ATOMIC_RELAXED); }
                    else {
                        // the long run ends in a real failure: confirm that one by running it again with the same limits
                        struct result* t = res; (void)t;
                        g_extended = 1; g_max_steps = ms * 12; g_max_points = MAXPOINTS - 1;
                        run_one(res, full, n);
                        g_extended = 0; g_max_steps = ms; g_max_points = mp;
                        if (res->status == res2->status && !strcmp(res->clause, res2->clause)) record_violation(res2, &cur, 1);
                        else { slock(); S->unconfirmed++; sunlock(); }
                        res->status = ST_HORIZON; // (expansion below is skipped for horizons anyway)
                    }
                } else if (S->livelock_confirmed) record_violation(res, &cur, 1);
                else { __atomic_fetch_add(&S->truncated, 1, __ATOMIC_RELAXED); __atomic_fetch_add(&S->long_runs, 1, __ATOMIC_RELAXED); }
            } else {
            run_one(res2, full, n);
            int same = (res2->status == res->status) && !strcmp(res2->clause, res->clause);
            if (same) record_violation(res, &cur, 1);
            else { slock(); S->unconfirmed++; sunlock(); }
            }
        } else {
            slock();
            int f = 0;
            for (int i = 0; i < S->nout; ++i) if (S->out[i] == res->outcome) { f = 1; break; }
            if (!f) { if (S->nout < MAXOUT) S->out[S->nout++] = res->outcome; else S->out_overflow++; }
            sunlock();
        }
        // expand: deviations after the prefix
        uint32_t np = res->npoints;
        if (np > MAXPREFIX) { np = MAXPREFIX; __atomic_fetch_add(&S->truncated, 1, __ATOMIC_RELAXED); }
        int made = 0;
        if (res->status != ST_DIVERGED) {
            for (uint32_t i = np; i-- > cur.len;) { // deepest first so that the stack pops shallow deviations last
                const struct point* p = &res->pts[i];
                for (int alt = p->n - 1; alt >= 1; --alt) {
                    int c = cur.cost + pt_cost(p, alt);
                    if (c > g_bound) continue;
                    struct item nw;
                    nw.len = (uint16_t)(i + 1); nw.cost = (uint16_t)c;
                    for (uint32_t j = 0; j < i; ++j) nw.ch[j] = res->pts[j].chosen;
                    nw.ch[i] = (uint8_t)alt;
                    __atomic_fetch_add(&S->pending, 1, __ATOMIC_SEQ_CST);
                    if (sp < 4096) stack[sp++] = nw;
                    else { slock(); if (S->npool < POOLCAP) S->pool[S->npool++] = nw; else { S->capped = 1; __atomic_fetch_sub(&S->pending, 1, __ATOMIC_SEQ_CST); } sunlock(); }
                    ++made;
                }
            }
        }
        __atomic_fetch_sub(&S->pending, 1, __ATOMIC_SEQ_CST);
        // share work: keep the pool stocked from the bottom (shallowest = largest subtrees) of the local stack
        if (sp > 2 && S->npool < 64) {
            slock();
            int give = sp / 2;
            if (give > 256) give = 256;
            if (S->npool + give > POOLCAP) give = POOLCAP - S->npool;
            for (int i = 0; i < give; ++i) S->pool[S->npool++] = stack[i];
            sunlock();
            memmove(stack, stack + give, (size_t)(sp - give) * sizeof stack[0]);
            sp -= give;
        }
        if (g_max_exec && S->executions >= g_max_exec) { S->stop = 1; }
        if (g_deadline && now_real() > g_deadline) { S->stop = 1; }
        (void)made;
    }
}

static void json_str(FILE* f, const char* s)
{
    fputc('"', f);
    for (; *s; ++s) {
        if (*s == '"' || *s == '\\') { fputc('\\', f); fputc(*s, f); }
        else if (*s == '\n') fputs("\\n", f);
        else if ((unsigned char)*s < 32) fputc(' ', f);
        else fputc(*s, f);
    }
    fputc('"', f);
}

static int parse_choices(const char* s, uint8_t* out)
{
    int n = 0;
    while (*s && n < MAXPREFIX) {
        while (*s == ',' || *s == ' ') ++s;
        if (!*s) break;
        out[n++] = (uint8_t)strtol(s, (char**)&s, 10);
    }
    return n;
}

static int g_cpu_base;
int vs_main(int argc, char** argv)
{
    const char* scen = 0; const char* out_path = 0; const char* replay = 0;
    int jobs = 16; double deadline_s = 0;
    int list = 0;
    for (int i = 1; i < argc; ++i) {
        const char* a = argv[i];
#define NEXT (i + 1 < argc ? argv[++i] : (fprintf(stderr, "missing value for %s\n", a), exit(2), ""))
        if (!strcmp(a, "--scenario")) scen = NEXT;
        else if (!strcmp(a, "--bound")) g_bound = atoi(NEXT);
        else if (!strcmp(a, "--jobs")) jobs = atoi(NEXT);
        else if (!strcmp(a, "--cpu-base")) g_cpu_base = atoi(NEXT);
        else if (!strcmp(a, "--max-exec")) g_max_exec = strtoull(NEXT, 0, 10);
        else if (!strcmp(a, "--deadline")) deadline_s = atof(NEXT);
        else if (!strcmp(a, "--out")) out_path = NEXT;
        else if (!strcmp(a, "--replay")) replay = NEXT;
        else if (!strcmp(a, "--max-steps")) g_max_steps = (unsigned)atoi(NEXT);
        else if (!strcmp(a, "--tick-us")) g_tick_ns = (uint64_t)(atof(NEXT) * 1000);
        else if (!strcmp(a, "--no-timeskip")) g_timeskip = 0;
        else if (!strcmp(a, "--delay-bounding")) g_delay_mode = 1;
        else if (!strcmp(a, "--skip-advances-clock")) g_skip_advances = 1;
        else if (!strcmp(a, "--viol-cap")) g_viol_cap = atoi(NEXT);
        else if (!strcmp(a, "--list")) list = 1;
        else if (!strcmp(a, "--param")) {
            char* kv = strdup(NEXT);
            char* eq = strchr(kv, '=');
            if (!eq) { fprintf(stderr, "--param wants k=v\n"); return 2; }
            *eq = 0;
            g_params[g_nparams][0] = kv; g_params[g_nparams][1] = eq + 1; ++g_nparams;
        } else { fprintf(stderr, "unknown argument %s\n", a); return 2; }
    }
    if (list) { for (struct vs_scenario* s = vs_scenarios; s->name; ++s) printf("%-28s %s\n", s->name, s->help ? s->help : ""); return 0; }
    for (struct vs_scenario* s = vs_scenarios; s->name; ++s) if (scen && !strcmp(s->name, scen)) SC = s;
    if (!SC) { fprintf(stderr, "unknown scenario %s (try --list)\n", scen ? scen : "(none)"); return 2; }
    if (jobs < 1) jobs = 1;
    if (jobs > 64) jobs = 64;
    g_tick_ns = (uint64_t)vs_param("tick_us", (long)(g_tick_ns / 1000)) * 1000;
    resolve_real();
    g_cov_n = 1 << 18;
    g_cov = mmap(0, g_cov_n, PROT_READ | PROT_WRITE, MAP_SHARED | MAP_ANONYMOUS, -1, 0);
    double t0 = now_real();
    if (SC->setup) SC->setup();
    struct result* slots = mmap(0, sizeof(struct result) * (size_t)(2 * jobs + 2), PROT_READ | PROT_WRITE, MAP_SHARED | MAP_ANONYMOUS, -1, 0);
    S = mmap(0, sizeof *S, PROT_READ | PROT_WRITE, MAP_SHARED | MAP_ANONYMOUS, -1, 0);
    if (slots == MAP_FAILED || S == MAP_FAILED) { perror("mmap"); return 2; }

    if (replay) {
        uint8_t ch[MAXPREFIX];
        int n = parse_choices(replay, ch);
        g_trace = 1;
        fflush(stdout);
        run_one(&slots[0], ch, (uint32_t)n);
        struct result* r = &slots[0];
        fwrite(r->notes, 1, r->notes_len, stdout);
        printf("RESULT status=%s steps=%u choice_points=%u outcome=%016llx clause=%s\n  %s\n", st_name[r->status & 7], r->steps, r->npoints, (unsigned long long)r->outcome, r->clause, r->msg);
        // determinism: a second run of the same choice list must give identical observations
        g_trace = 0;
        fflush(stdout);
        run_one(&slots[1], ch, (uint32_t)n);
        int same = slots[1].status == r->status && slots[1].outcome == r->outcome && slots[1].npoints == r->npoints && slots[1].steps == r->steps;
        printf("REPLAY-DETERMINISM %s\n", same ? "identical" : "DIVERGED");
        return r->status == ST_OK ? (same ? 0 : 3) : 1;
    }

    g_deadline = deadline_s > 0 ? t0 + deadline_s : 0;
    // iterative bounding is done by the caller (one invocation per bound) or here for bound>=0: run exactly g_bound
    S->pending = 1; S->npool = 1; S->pool[0].len = 0; S->pool[0].cost = 0;
    pid_t kids[64];
    for (int w = 0; w < jobs; ++w) {
        pid_t p = fork();
        if (p == 0) {
            if (!vs_param("nopin", 0)) { // all threads of one execution share a core: futex hand-offs stay cheap
                cpu_set_t cs; CPU_ZERO(&cs); CPU_SET((g_cpu_base + w) % (int)sysconf(_SC_NPROCESSORS_ONLN), &cs);
                sched_setaffinity(0, sizeof cs, &cs);
            }
            worker(w, &slots[2 * w], &slots[2 * w + 1]); _exit(0);
        }
        kids[w] = p;
    }
    int bad = 0;
    for (int w = 0; w < jobs; ++w) { int st; waitpid(kids[w], &st, 0); if (!WIFEXITED(st) || WEXITSTATUS(st)) bad++; }
    double wall = now_real() - t0;
    size_t edges = 0;
    for (size_t i = 0; i < g_cov_n; ++i) edges += g_cov[i];
    FILE* f = out_path ? fopen(out_path, "w") : stdout;
    if (!f) { perror("out"); return 2; }
    int exhaustive = !S->capped && !S->stop && S->pending == 0 && !bad && !S->truncated;
    fprintf(f, "{\"scenario\":\"%s\",\"cost_model\":\"%s\",\"bound\":%d,\"jobs\":%d,\"executions\":%llu,\"steps\":%llu,\"choice_points\":%llu,\"max_choice_points\":%llu,", SC->name, g_delay_mode ? "delay" : "preemption", g_bound, jobs, S->executions, S->steps, S->points, S->maxpoints);
    fprintf(f, "\"distinct_outcomes\":%d,\"outcome_overflow\":%llu,\"edges_covered\":%zu,\"exhaustive\":%s,\"worker_failures\":%d,\"unconfirmed\":%d,\"long_executions_not_livelocks\":%llu,\"wall_s\":%.3f,", S->nout, S->out_overflow, edges, exhaustive ? "true" : "false", bad, S->unconfirmed, (unsigned long long)S->long_runs, wall);
    fprintf(f, "\"params\":{");
    for (int i = 0; i < g_nparams; ++i) { fprintf(f, "%s", i ? "," : ""); json_str(f, g_params[i][0]); fputc(':', f); json_str(f, g_params[i][1]); }
    fprintf(f, "},\"status_counts\":{");
    for (int i = 1; i < 8; ++i) fprintf(f, "%s\"%s\":%llu", i > 1 ? "," : "", st_name[i], S->status_count[i]);
    fprintf(f, "},\"event_counts\":[");
    for (int i = 0; i < 64; ++i) fprintf(f, "%s%llu", i ? "," : "", S->event_count[i]);
    fprintf(f, "],\"violations\":[");
    for (int i = 0; i < S->nviol; ++i) {
        struct viol* v = &S->viol[i];
        fprintf(f, "%s{\"status\":\"%s\",\"clause\":", i ? "," : "", st_name[v->status & 7]);
        json_str(f, v->clause); fprintf(f, ",\"msg\":"); json_str(f, v->msg);
        fprintf(f, ",\"count\":%u,\"deviations\":%u,\"confirmed_by_replay\":%s,\"choices\":\"", v->count, v->cost, v->confirmed ? "true" : "false");
        for (uint32_t j = 0; j < v->len; ++j) fprintf(f, "%s%d", j ? "," : "", v->ch[j]);
        fprintf(f, "\"}");
    }
    fprintf(f, "]}\n");
    if (f != stdout) fclose(f);
    return S->nviol ? 1 : 0;
}
