// E3 / C14: the raw storage device, through the real HAL and the real linux/platform.c file_write, over
// every history of set/start/append*/stop cycles x packet groupings x URI spellings x every placement of
// <= d short/zero writes answered by the interposed pwrite.  Oracle: the file of each cycle is exactly
// the concatenation of that cycle's packets.
//   c14_raw [--cycles C] [--dev D] [--out f.json] [--replay spec]
#include "files_common.h"
#include <chrono>
#include <map>

struct Run {
    int cycles;
    int nframes[3];
    int grouping[3];   // bitmask: bit i set = packet boundary after frame i (i < n-1)
    int uri[3];        // 0 absolute plain, 1 file:// + absolute, 2 short relative name (< 7 chars), 3 (cycles > 0) no set: restart with the previous settings
    std::vector<int> plan;
    int reject_after = -1; // >= 0 (cycles >= 2): after this many packets of cycle 0 the client re-configures the RUNNING device with a path that
                           // cannot be written; the device rejects it, the first acquisition ends there, the next cycle configures a good path again
    int intruder = -1; // >= 0: after this many packets of cycle 0 a SECOND raw device is pointed at the same file (set; start; stop; close)
};
static std::string run_str(const Run& r)
{
    char b[256]; std::string s = "cycles:" + std::to_string(r.cycles) + "|frames:";
    for (int c = 0; c < r.cycles; ++c) { snprintf(b, sizeof b, "%s%d", c ? "," : "", r.nframes[c]); s += b; }
    s += "|group:"; for (int c = 0; c < r.cycles; ++c) { snprintf(b, sizeof b, "%s%d", c ? "," : "", r.grouping[c]); s += b; }
    s += "|uri:"; for (int c = 0; c < r.cycles; ++c) { snprintf(b, sizeof b, "%s%d", c ? "," : "", r.uri[c]); s += b; }
    s += "|plan:"; for (size_t i = 0; i < r.plan.size(); ++i) { snprintf(b, sizeof b, "%s%d", i ? "," : "", r.plan[i]); s += b; }
    if (r.intruder >= 0) s += "|intruder:" + std::to_string(r.intruder);
    if (r.reject_after >= 0) s += "|reject:" + std::to_string(r.reject_after);
    return s;
}
static bool parse_run(const std::string& s, Run& r)
{
    memset(r.nframes, 0, sizeof r.nframes); memset(r.grouping, 0, sizeof r.grouping); memset(r.uri, 0, sizeof r.uri); r.plan.clear();
    auto field = [&](const char* name) -> std::string { size_t p = s.find(std::string(name) + ":"); if (p == std::string::npos) return ""; p += strlen(name) + 1; size_t q = s.find('|', p); return s.substr(p, q == std::string::npos ? std::string::npos : q - p); };
    auto ints = [](const std::string& t) { std::vector<int> v; const char* c = t.c_str(); while (*c) { v.push_back((int)strtol(c, (char**)&c, 10)); if (*c == ',') ++c; } return v; };
    r.cycles = atoi(field("cycles").c_str());
    if (r.cycles < 1 || r.cycles > 3) return false;
    auto f = ints(field("frames")), g = ints(field("group")), u = ints(field("uri"));
    for (int c = 0; c < r.cycles; ++c) { r.nframes[c] = c < (int)f.size() ? f[c] : 1; r.grouping[c] = c < (int)g.size() ? g[c] : 0; r.uri[c] = c < (int)u.size() ? u[c] : 0; }
    r.plan = ints(field("plan"));
    r.intruder = field("intruder").empty() ? -1 : atoi(field("intruder").c_str());
    r.reject_after = field("reject").empty() ? -1 : atoi(field("reject").c_str());
    return true;
}

static unsigned long long g_intrusions, g_rejections, g_eintr_runs;
struct Result { bool ok = true; std::string clause, detail; int writes = 0; bool write_failed = false; };

static const uint32_t WIDTHS[3] = { 1, 9, 17 }; // frames of 104, 112 and 120 bytes

static Result execute(const Run& r, bool verbose)
{
    Result res;
    ENV = Env();
    ENV.write_plan = r.plan;
    foreign_shuffle();
    struct Storage* dev = dev_open(BasicDevice_Storage_Raw);
    if (!dev) { res.ok = false; res.clause = "open-failed"; res.detail = "storage_open(raw) returned NULL"; return res; }
    char m[400];
    for (int c = 0; c < r.cycles && res.ok; ++c) {
        enum DeviceStatusCode rc;
        static std::string path;
        if (c > 0 && r.uri[c] == 3) {
            // restart without a new set: same settings, same path; the previous file has been moved away by the client
            unlink(path.c_str());
        } else {
            path = g_scratch + "/cyc" + std::to_string(c) + ".raw";
            std::string uri = path;
            if (r.uri[c] == 1) uri = "file://" + path;
            if (r.uri[c] == 2) { path = g_scratch + "/f" + std::to_string(c); uri = "f" + std::to_string(c); } // cwd is the scratch directory
            unlink(path.c_str());
            struct StorageProperties props; memset(&props, 0, sizeof props);
            struct PixelScale ps = { 1, 1 };
            storage_properties_init(&props, 0, uri.c_str(), uri.size() + 1, nullptr, 0, ps, 0);
            DEV(rc = storage_set(dev, &props));
            storage_properties_destroy(&props);
            if (rc != Device_Ok) { res.ok = false; res.clause = "set-failed"; snprintf(m, sizeof m, "cycle %d: storage_set(uri=%s) failed", c, uri.c_str()); res.detail = m; break; }
        }
        DEV(rc = storage_start(dev));
        if (rc != Device_Ok) { res.ok = false; res.clause = "start-failed"; snprintf(m, sizeof m, "cycle %d: storage_start failed", c); res.detail = m; break; }
        foreign_shuffle();
        std::vector<uint8_t> expect, packet;
        bool failed = false;
        int npackets = 0;
        auto intrude = [&]() {
            // another raw device of the same driver is configured with the file this one is recording to and started: whatever
            // becomes of that start, this device's file still consists of this device's frames
            struct Storage* other = dev_open(BasicDevice_Storage_Raw);
            if (!other) return;
            std::string uri2 = "file://" + path;
            struct StorageProperties p2; memset(&p2, 0, sizeof p2);
            struct PixelScale ps2 = { 1, 1 };
            storage_properties_init(&p2, 0, uri2.c_str(), uri2.size() + 1, nullptr, 0, ps2, 0);
            DEV(storage_set(other, &p2));
            storage_properties_destroy(&p2);
            DEV(storage_start(other));
            DEV(storage_stop(other));
            DEV(storage_close(other));
            ++g_intrusions;
        };
        if (c == 0 && r.intruder == 0) intrude();
        bool rejected = false;
        auto reject_live_set = [&]() {
            std::string bad = g_scratch + "/no-such-directory/x.raw";
            struct StorageProperties pb; memset(&pb, 0, sizeof pb);
            struct PixelScale psb = { 1, 1 };
            storage_properties_init(&pb, 0, bad.c_str(), bad.size() + 1, nullptr, 0, psb, 0);
            enum DeviceStatusCode rb;
            DEV(rb = storage_set(dev, &pb));
            storage_properties_destroy(&pb);
            rejected = true; ++g_rejections;
            (void)rb;
        };
        if (c == 0 && r.reject_after == 0) reject_live_set();
        for (int i = 0; i < r.nframes[c] && !rejected; ++i) {
            FrameSpec fs = { WIDTHS[(i + c) % 3], 1, SampleType_u8, (uint64_t)i };
            std::vector<uint8_t> f = make_frame(fs, c);
            packet.insert(packet.end(), f.begin(), f.end());
            bool boundary = (i == r.nframes[c] - 1) || (r.grouping[c] >> i & 1);
            if (boundary) {
                // the packet must be 8-byte aligned like ring memory
                std::vector<uint64_t> aligned((packet.size() + 7) / 8);
                memcpy(aligned.data(), packet.data(), packet.size());
                int failed_before = ENV.failed_writes;
                DEV(rc = storage_append(dev, (const struct VideoFrame*)aligned.data(), (const struct VideoFrame*)((uint8_t*)aligned.data() + packet.size())));
                if (verbose) printf("  cycle %d append %zu bytes -> %s\n", c, packet.size(), rc == Device_Ok ? "ok" : "error");
                if (rc != Device_Ok) { failed = true; (void)failed_before; break; }
                expect.insert(expect.end(), packet.begin(), packet.end());
                packet.clear();
                foreign_shuffle();
                ++npackets;
                if (c == 0 && r.intruder == npackets) intrude();
                if (c == 0 && r.reject_after == npackets) reject_live_set();
            }
        }
        DEV(storage_stop(dev));
        foreign_shuffle();
        if (failed) {
            // the property speaks about histories in which no write failed; what a refused append leaves behind is not judged - but the
            // packets the device ACCEPTED before it are in the file, unchanged, at the front
            res.write_failed = true;
            std::vector<uint8_t> got;
            if (!expect.empty() && h_read_file(path, got) && (got.size() < expect.size() || memcmp(got.data(), expect.data(), expect.size()))) {
                size_t k = 0; while (k < got.size() && k < expect.size() && got[k] == expect[k]) ++k;
                res.ok = false; res.clause = "accepted-frames-damaged-by-a-refused-append";
                snprintf(m, sizeof m, "cycle %d: an append was refused after %zu bytes had been accepted; the file (%zu bytes) differs from the accepted packets at offset %zu", c, expect.size(), got.size(), k);
                res.detail = m;
            }
            unlink(path.c_str());
            continue;
        }
        std::vector<uint8_t> got;
        if (!h_read_file(path, got)) { res.ok = false; res.clause = "file-missing"; snprintf(m, sizeof m, "cycle %d: %s does not exist after stop", c, path.c_str()); res.detail = m; break; }
        if (got != expect) {
            size_t k = 0; while (k < got.size() && k < expect.size() && got[k] == expect[k]) ++k;
            res.ok = false;
            res.clause = got.size() != expect.size() ? "file-length-wrong" : "file-content-wrong";
            snprintf(m, sizeof m, "cycle %d (%d frames, uri spelling %d): file has %zu bytes, the %d appended frames are %zu bytes; first difference at offset %zu", c, r.nframes[c], r.uri[c], got.size(), r.nframes[c], expect.size(), k);
            res.detail = m;
        }
        unlink(path.c_str());
    }
    DEV(storage_close(dev));
    res.writes = ENV.nwrites;
    return res;
}

int main(int argc, char** argv)
{
    int max_cycles = 2, dev = 2; std::string out, replay;
    for (int i = 1; i < argc; ++i) {
        std::string a = argv[i];
        if (a == "--cycles") max_cycles = atoi(argv[++i]);
        else if (a == "--dev") dev = atoi(argv[++i]);
        else if (a == "--out") out = argv[++i];
        else if (a == "--replay") replay = argv[++i];
        else { fprintf(stderr, "unknown arg %s\n", a.c_str()); return 2; }
    }
    harness_init("c14");
    if (chdir(g_scratch.c_str())) { perror("chdir"); return 2; }
    auto t0 = std::chrono::steady_clock::now();
    if (!replay.empty()) {
        Run r;
        if (!parse_run(replay, r)) { fprintf(stderr, "bad replay spec\n"); return 2; }
        Result res = execute(r, true);
        h_rmtree(g_scratch);
        if (res.ok) { printf("RESULT ok (%d pwrite calls%s)\n", res.writes, res.write_failed ? ", a write failed: content not judged" : ""); return 0; }
        printf("RESULT VIOLATION C14:%s %s\n", res.clause.c_str(), res.detail.c_str());
        return 1;
    }
    struct V { std::string clause, detail, spec; unsigned long long count; };
    std::map<std::string, V> viols;
    unsigned long long runs = 0, histories = 0, short_runs = 0, judged = 0, multi_cycle = 0;
    std::vector<std::string> samples;
    for (int cycles = 1; cycles <= max_cycles; ++cycles) {
        // frame counts per cycle
        std::vector<Run> bases;
        int nf[3] = { 1, 1, 1 };
        for (;;) {
            // groupings
            int g[3] = { 0, 0, 0 };
            for (;;) {
                int u[3] = { 0, 0, 0 };
                for (;;) {
                    Run r; r.cycles = cycles;
                    for (int c = 0; c < 3; ++c) { r.nframes[c] = nf[c]; r.grouping[c] = g[c]; r.uri[c] = u[c]; }
                    bases.push_back(r);
                    int c = 0; while (c < cycles) { if (++u[c] < (c == 0 ? 3 : 4)) break; u[c] = 0; ++c; }
                    if (c == cycles) break;
                }
                int c = 0; while (c < cycles) { if (++g[c] < (1 << (nf[c] - 1))) break; g[c] = 0; ++c; }
                if (c == cycles) break;
            }
            int c = 0; while (c < cycles) { if (++nf[c] <= 3) break; nf[c] = 1; ++c; }
            if (c == cycles) break;
        }
        for (Run& b : bases) {
            ++histories;
            if (cycles > 1) ++multi_cycle;
            // deviation 0
            Result r0 = execute(b, false); ++runs; ++judged;
            auto note = [&](const Run& r, const Result& res) {
                if (res.ok) return;
                auto& e = viols[res.clause];
                if (!e.count) { e.clause = res.clause; e.detail = res.detail; e.spec = run_str(r); }
                ++e.count;
            };
            note(b, r0);
            if (samples.size() < 8 && histories % 97 == 3) samples.push_back(run_str(b));
            if (!r0.ok) continue; // deviations on a broken base add nothing
            if (cycles == 2 && b.uri[1] != 3 && b.uri[0] == 0 && b.grouping[1] == 0)
                for (int k = 0; k <= b.nframes[0]; ++k) { Run rr = b; rr.reject_after = k; Result res = execute(rr, false); ++runs; ++judged; note(rr, res); }
            if (cycles == 1 && b.uri[0] < 2)
                for (int k = 0; k <= b.nframes[0]; ++k) { Run ri = b; ri.intruder = k; Result res = execute(ri, false); ++runs; ++judged; note(ri, res); }
            int W = r0.writes + 2 * dev; // short writes add calls
            if (cycles == 2 && (b.uri[0] != 0 || b.uri[1] != 0) && dev > 1) W = r0.writes; // keep the product in check: full depth only for plain URIs
            // all placements of <= dev deviations over the first W pwrite calls, kinds {short by 1, one byte, zero}
            std::vector<int> pos;
            std::vector<int> kind;
            // three consecutive stalls (0 bytes written) inside one packet: the writer's retry budget; it may give up (the append then
            // fails and the file is not judged) but must not report bytes as written that were not
            if (cycles == 1)
                for (int p1 = 0; p1 < r0.writes; ++p1) {
                    Run r = b; r.plan.assign(p1 + 3, W_FULL); r.plan[p1] = r.plan[p1 + 1] = r.plan[p1 + 2] = W_ZERO;
                    Result res = execute(r, false); ++runs; ++short_runs; if (!res.write_failed) ++judged;
                    note(r, res);
                }
            // 1 deviation
            // an interrupted write (-1/EINTR, nothing written) at every pwrite index, alone and after a short write: the device may retry it
            // or refuse the append, but what it reports as accepted is what the file holds
            if (cycles == 1 || (b.uri[0] == 0 && b.uri[1] == 0))
                for (int p1 = 0; p1 < r0.writes + 1; ++p1)
                    for (int pre = 0; pre <= (p1 > 0 ? W_ZERO : 0); ++pre) {
                        Run r = b; r.plan.assign(p1 + 1, W_FULL); r.plan[p1] = W_EINTR; if (pre) r.plan[p1 - 1] = pre;
                        Result res = execute(r, false); ++runs; ++short_runs; ++g_eintr_runs; if (!res.write_failed) ++judged;
                        note(r, res);
                    }
            for (int p1 = 0; p1 < W && dev >= 1; ++p1)
                for (int k1 = W_SHORT_BY_1; k1 <= W_ZERO; ++k1) {
                    Run r = b; r.plan.assign(p1 + 1, W_FULL); r.plan[p1] = k1;
                    Result res = execute(r, false); ++runs; ++short_runs; if (!res.write_failed) ++judged;
                    note(r, res);
                    if (p1 >= res.writes) continue; // the deviation did not take place: no deeper placements behind it
                    for (int p2 = p1 + 1; p2 < W && dev >= 2; ++p2)
                        for (int k2 = W_SHORT_BY_1; k2 <= W_ZERO; ++k2) {
                            Run r2 = r; r2.plan.resize(p2 + 1, W_FULL); r2.plan[p2] = k2;
                            Result res2 = execute(r2, false); ++runs; ++short_runs; if (!res2.write_failed) ++judged;
                            note(r2, res2);
                            if (dev >= 3 && cycles == 1)
                                for (int p3 = p2 + 1; p3 < W; ++p3)
                                    for (int k3 = W_SHORT_BY_1; k3 <= W_ZERO; ++k3) {
                                        Run r3 = r2; r3.plan.resize(p3 + 1, W_FULL); r3.plan[p3] = k3;
                                        Result res3 = execute(r3, false); ++runs; ++short_runs; if (!res3.write_failed) ++judged;
                                        note(r3, res3);
                                    }
                        }
                }
        }
    }
    h_rmtree(g_scratch);
    double wall = std::chrono::duration<double>(std::chrono::steady_clock::now() - t0).count();
    FILE* f = out.empty() ? stdout : fopen(out.c_str(), "w");
    fprintf(f, "{\"runs_with_an_interrupted_write\":%llu,\"runs_with_a_rejected_live_set\":%llu,\"runs_with_a_second_device_on_the_same_file\":%llu,\"max_cycles\":%d,\"max_short_write_deviations\":%d,\"histories\":%llu,\"runs\":%llu,\"runs_with_short_or_zero_writes\":%llu,\"runs_judged\":%llu,\"multi_cycle_histories\":%llu,\"exhaustive\":true,\"wall_s\":%.3f,\"samples\":[",
            g_eintr_runs, g_rejections, g_intrusions, max_cycles, dev, histories, runs, short_runs, judged, multi_cycle, wall);
    for (size_t i = 0; i < samples.size(); ++i) fprintf(f, "%s\"%s\"", i ? "," : "", json_esc(samples[i]).c_str());
    fprintf(f, "],\"violations\":[");
    bool first = true;
    for (auto& kv : viols) { fprintf(f, "%s{\"clause\":\"%s\",\"detail\":\"%s\",\"spec\":\"%s\",\"count\":%llu}", first ? "" : ",", json_esc(kv.second.clause).c_str(), json_esc(kv.second.detail).c_str(), json_esc(kv.second.spec).c_str(), kv.second.count); first = false; }
    fprintf(f, "]}\n");
    if (f != stdout) fclose(f);
    return viols.empty() ? 0 : 1;
}
