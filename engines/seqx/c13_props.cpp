// E3 / C13: bounded exhaustive enumeration of StorageProperties call sequences on the REAL
// device/props/storage.c against a value model, with an allocation ledger (link-time --wrap of the malloc
// family as seen by storage.c) and pointer-independence checks.
//
//   c13_props --depth D [--out f.json] [--replay "op;op;..."] [--max-states N]
//
// BFS over operation sequences on three objects; a state is the history replayed on fresh (zeroed) objects;
// states are merged on (model value of all objects, allocation size behind every stored string).
#include <cstdio>
#include <cstdlib>
#include <cstring>
#include <cstdint>
#include <string>
#include <vector>
#include <map>
#include <set>
#include <unordered_set>
#include <chrono>
#include <algorithm>

extern "C" {
#include "device/props/storage.h"
// (the real logger is linked; no reporter is installed, so it stays silent)
}

// ---------------------------------------------------------------- allocation ledger
extern "C" {
void* __real_malloc(size_t);
void* __real_realloc(void*, size_t);
void __real_free(void*);
void* __real_calloc(size_t, size_t);
}
struct Block { size_t n; bool live; };
static std::map<void*, Block> LEDGER;     // every block storage.c ever got, never really released (quarantine)
static bool g_track = false;
static std::string g_ledger_err;
static size_t g_live = 0;
static void ledger_err(const std::string& e) { if (g_ledger_err.empty()) g_ledger_err = e; }

// allocation answers: the k-th allocation request (malloc, calloc or realloc) made by the property functions since the counter was reset fails
static long g_alloc_calls = 0, g_fail_at = -1; static bool g_alloc_failed = false;
static bool alloc_gate() { if (!g_track) return false; if (g_alloc_calls++ == g_fail_at) { g_alloc_failed = true; return true; } return false; }
static void* raw_malloc(size_t n);
extern "C" void* __wrap_malloc(size_t n) { if (alloc_gate()) return nullptr; return raw_malloc(n); }
static void* raw_malloc(size_t n)
{
    if (g_track && n > (1u << 24)) { // a length read from released (poisoned) memory
        ledger_err("allocation of an absurd size requested: a length was read from memory that had already been released");
        n = 16;
    }
    void* p = __real_malloc(n ? n : 1);
    if (g_track) { memset(p, 0xCD, n); LEDGER[p] = { n, true }; ++g_live; }
    return p;
}
extern "C" void* __wrap_calloc(size_t a, size_t b)
{
    if (alloc_gate()) return nullptr;
    void* p = __real_calloc(a, b ? b : 1);
    if (g_track) { LEDGER[p] = { a * b, true }; ++g_live; }
    return p;
}
extern "C" void __wrap_free(void* p)
{
    if (!g_track) { __real_free(p); return; }
    if (!p) return;
    auto it = LEDGER.find(p);
    if (it == LEDGER.end()) { ledger_err("free of a pointer that was never allocated by the property functions (foreign or interior pointer)"); return; }
    if (!it->second.live) { ledger_err("allocation released twice"); return; }
    it->second.live = false; --g_live;
    memset(p, 0, it->second.n); // scrub; the block stays mapped (quarantine): a later use reads zero lengths / NULL pointers deterministically,
    // which the value comparison reports, instead of wild lengths that would corrupt the harness's own heap
}
extern "C" void* __wrap_realloc(void* p, size_t n)
{
    if (!g_track) return __real_realloc(p, n);
    if (alloc_gate()) return nullptr; // the old block stays valid and owned by the caller
    if (!p) return raw_malloc(n);
    auto it = LEDGER.find(p);
    if (it == LEDGER.end()) { ledger_err("realloc of a pointer that was never allocated by the property functions"); return raw_malloc(n); }
    if (!it->second.live) { ledger_err("realloc of an allocation that was already released"); return raw_malloc(n); }
    void* q = raw_malloc(n);
    memcpy(q, p, std::min(n, it->second.n));
    __wrap_free(p);
    return q;
}
static void ledger_reset()
{
    for (auto& kv : LEDGER) __real_free(kv.first);
    LEDGER.clear(); g_live = 0; g_ledger_err.clear();
}

// ---------------------------------------------------------------- value model
struct MStr { bool null = true; std::string v; };      // stored bytes incl. the forced terminating NUL
struct MDim { MStr name; int kind = 0; uint32_t a = 0, c = 0, s = 0; };
struct MObj {
    MStr uri, meta, key, secret;
    uint32_t first = 0; double px = 0, py = 0; uint8_t ms = 0;
    std::vector<MDim> dims;
};
static MStr model_copy_string(const char* s, size_t n)
{
    MStr m; m.null = false;
    if (!s || !n) { m.v = std::string(1, '\0'); return m; }
    m.v.assign(s, n);
    m.v[n - 1] = '\0';
    return m;
}

// ---------------------------------------------------------------- inputs (tiny alphabets)
static char LONGS[64];
static char UNTERM[8] = { 'a', 'b', 'Z', 'Z', 0 }; // "ab" passed with nbytes=2: not terminated inside its length
struct SVal { const char* p; size_t n; const char* label; };
static std::vector<SVal> URIS, METAS, NAMES;
static void init_inputs()
{
    memset(LONGS, 'L', 47); LONGS[47] = 0;
    // "pointer-with-0-bytes": a non-NULL pointer passed with a length of 0 is an empty string too
    URIS = { { nullptr, 0, "NULL" }, { "x", 2, "\"x\"" }, { LONGS, 48, "long48" }, { UNTERM, 2, "unterminated-ab" }, { "", 1, "\"\"" }, { "zz", 0, "pointer-with-0-bytes" } };
    METAS = { { nullptr, 0, "NULL" }, { "{}", 3, "\"{}\"" }, { "zz", 0, "pointer-with-0-bytes" } };
    NAMES = { { "x", 2, "\"x\"" }, { UNTERM, 2, "unterminated-ab" }, { nullptr, 0, "NULL" }, { "", 1, "\"\"" } };
}

// ---------------------------------------------------------------- operations
enum K : uint8_t { INIT = 1, SET_URI, SET_META, SET_KEYS, SET_DIM, SET_MS, COPY, DESTROY };
struct Op { uint8_t k, o, a, b, c; };
static const char* ON = "ABC";
static std::string op_str(Op op)
{
    char b[128];
    switch (op.k) {
        case INIT: snprintf(b, sizeof b, "init(%c,uri=%s,meta=%s,ndims=%d)", ON[op.o], URIS[op.a].label, METAS[op.b].label, op.c); break;
        case SET_URI: snprintf(b, sizeof b, "set_uri(%c,%s)", ON[op.o], URIS[op.a].label); break;
        case SET_META: snprintf(b, sizeof b, "set_meta(%c,%s)", ON[op.o], METAS[op.a].label); break;
        case SET_KEYS: snprintf(b, sizeof b, "set_keys(%c,%d)", ON[op.o], op.a); break;
        case SET_DIM: snprintf(b, sizeof b, "set_dim(%c,%d,%s,kind=%d)", ON[op.o], (int)(int8_t)op.a, NAMES[op.b].label, op.c); break;
        case SET_MS: snprintf(b, sizeof b, "set_multiscale(%c,%d)", ON[op.o], op.a); break;
        case COPY: snprintf(b, sizeof b, "copy(%c<-%c)", ON[op.o], ON[op.a]); break;
        case DESTROY: snprintf(b, sizeof b, "destroy(%c)", ON[op.o]); break;
        default: snprintf(b, sizeof b, "?");
    }
    return b;
}
static std::vector<Op> ALPHA;
static void build_alphabet(int nobj)
{
    for (int o = 0; o < nobj; ++o) {
        for (int u : { 1, 2 }) for (int m : { 0, 1 }) for (int nd : { 0, 2 }) ALPHA.push_back({ INIT, (uint8_t)o, (uint8_t)u, (uint8_t)m, (uint8_t)nd });
        ALPHA.push_back({ INIT, (uint8_t)o, 0, 0, 1 });
        ALPHA.push_back({ INIT, (uint8_t)o, 3, 1, 0 });
        for (int u = 0; u < (int)URIS.size(); ++u) ALPHA.push_back({ SET_URI, (uint8_t)o, (uint8_t)u, 0, 0 });
        for (int m = 0; m < (int)METAS.size(); ++m) ALPHA.push_back({ SET_META, (uint8_t)o, (uint8_t)m, 0, 0 });
        ALPHA.push_back({ SET_KEYS, (uint8_t)o, 0, 0, 0 });
        ALPHA.push_back({ SET_KEYS, (uint8_t)o, 1, 0, 0 });
        for (int i : { 0, 1 }) for (int nm : { 0, 1 }) ALPHA.push_back({ SET_DIM, (uint8_t)o, (uint8_t)i, (uint8_t)nm, (uint8_t)(i + 1) });
        ALPHA.push_back({ SET_DIM, (uint8_t)o, 5, 0, 0 });               // index out of range
        ALPHA.push_back({ SET_DIM, (uint8_t)o, (uint8_t)-1, 0, 0 });     // negative index
        ALPHA.push_back({ SET_DIM, (uint8_t)o, 0, 2, 0 });               // NULL name
        ALPHA.push_back({ SET_DIM, (uint8_t)o, 0, 3, 0 });               // empty name
        ALPHA.push_back({ SET_DIM, (uint8_t)o, 0, 0, 9 });               // invalid kind
        ALPHA.push_back({ SET_MS, (uint8_t)o, 1, 0, 0 });
        for (int s = 0; s < nobj; ++s) if (s != o) ALPHA.push_back({ COPY, (uint8_t)o, (uint8_t)s, 0, 0 });
        ALPHA.push_back({ DESTROY, (uint8_t)o, 0, 0, 0 });
    }
}

// ---------------------------------------------------------------- one world: implementation objects + model
struct World {
    StorageProperties impl[3];
    MObj model[3];
    bool pristine[3]; // zeroed or destroyed: no outstanding allocation, init allowed
};
static const char* KEYS[2][2] = { { "AK", "SECRET-1" }, { "AKIA-LONGER-KEY", "s" } };

struct Verdict { bool ok = true; std::string clause, detail; };
static Verdict bad(const std::string& c, const std::string& d) { Verdict v; v.ok = false; v.clause = c; v.detail = d; return v; }

static bool enabled(const World& w, Op op)
{
    if (op.k == INIT) return w.pristine[op.o]; // init on an object that owns memory would leak by contract: not legal use
    return true;
}

static Verdict check_string(const char* what, int o, const String& s, const MStr& m)
{
    char d[256];
    if (m.null) {
        if (s.str != nullptr && s.nbytes != 0) { snprintf(d, sizeof d, "%c.%s should be unset but holds %zu bytes", ON[o], what, s.nbytes); return bad("stale-string-after-destroy", d); }
        return {};
    }
    if (!s.str) { snprintf(d, sizeof d, "%c.%s is NULL, expected %zu bytes", ON[o], what, m.v.size()); return bad("string-missing", d); }
    if (s.nbytes != m.v.size()) { snprintf(d, sizeof d, "%c.%s has nbytes=%zu, expected %zu", ON[o], what, s.nbytes, m.v.size()); return bad("string-length-wrong", d); }
    // the bytes must live in a live block of the ledger, of sufficient size, owned by nobody else
    auto it = LEDGER.upper_bound((void*)s.str);
    bool inside = false;
    if (it != LEDGER.begin()) { --it; inside = (char*)it->first <= s.str && s.str + s.nbytes <= (char*)it->first + it->second.n && it->second.live; }
    if (!inside) { snprintf(d, sizeof d, "%c.%s points to memory that is not a live allocation of its own (released, or borrowed from the caller/source)", ON[o], what); return bad("string-not-owned", d); }
    if (s.nbytes && s.str[s.nbytes - 1] != '\0') { snprintf(d, sizeof d, "%c.%s is not NUL-terminated at its recorded length %zu", ON[o], what, s.nbytes); return bad("string-not-terminated", d); }
    if (memcmp(s.str, m.v.data(), m.v.size())) { snprintf(d, sizeof d, "%c.%s content differs from the value that was set/copied", ON[o], what); return bad("string-content-wrong", d); }
    return {};
}

static Verdict compare(const World& w, bool values_of_destroyed)
{
    std::set<const void*> blocks;
    char d[256];
    for (int o = 0; o < 3; ++o) {
        const StorageProperties& p = w.impl[o];
        const MObj& m = w.model[o];
        struct { const char* n; const String* s; const MStr* ms; } S[] = { { "uri", &p.uri, &m.uri }, { "external_metadata_json", &p.external_metadata_json, &m.meta }, { "access_key_id", &p.access_key_id, &m.key }, { "secret_access_key", &p.secret_access_key, &m.secret } };
        if (w.pristine[o]) continue; // a destroyed object is only judged by what later calls do with it (the property does not say what destroy leaves behind)
        for (auto& x : S) {
            Verdict v = check_string(x.n, o, *x.s, *x.ms);
            if (!v.ok) return v;
            if (!x.ms->null && x.s->str && !blocks.insert(x.s->str).second) { snprintf(d, sizeof d, "%c.%s shares its buffer with another stored string", ON[o], x.n); return bad("strings-share-memory", d); }
        }
        if (!w.pristine[o] || values_of_destroyed) {
            if (p.first_frame_id != m.first) { snprintf(d, sizeof d, "%c.first_frame_id=%u expected %u", ON[o], p.first_frame_id, m.first); return bad("scalar-field-wrong", d); }
            if (p.pixel_scale_um.x != m.px || p.pixel_scale_um.y != m.py) { snprintf(d, sizeof d, "%c.pixel_scale_um wrong", ON[o]); return bad("scalar-field-wrong", d); }
            if (p.enable_multiscale != m.ms) { snprintf(d, sizeof d, "%c.enable_multiscale=%d expected %d", ON[o], p.enable_multiscale, m.ms); return bad("scalar-field-wrong", d); }
        }
        if (p.acquisition_dimensions.size != m.dims.size() && !(m.dims.empty() && p.acquisition_dimensions.data == nullptr)) {
            snprintf(d, sizeof d, "%c has %zu dimensions, expected %zu", ON[o], p.acquisition_dimensions.size, m.dims.size()); return bad("dimension-count-wrong", d);
        }
        if (!m.dims.empty()) {
            if (!p.acquisition_dimensions.data) { snprintf(d, sizeof d, "%c dimension array missing", ON[o]); return bad("dimension-count-wrong", d); }
            auto it = LEDGER.find((void*)p.acquisition_dimensions.data);
            if (it == LEDGER.end() || !it->second.live) { snprintf(d, sizeof d, "%c dimension array is not a live allocation of its own (released or shared)", ON[o]); return bad("dimensions-not-owned", d); }
            if (!blocks.insert(p.acquisition_dimensions.data).second) { snprintf(d, sizeof d, "%c shares its dimension array with another object", ON[o]); return bad("dimensions-share-memory", d); }
            for (size_t i = 0; i < m.dims.size(); ++i) {
                const StorageDimension& dd = p.acquisition_dimensions.data[i];
                char nm[32]; snprintf(nm, sizeof nm, "dim[%zu].name", i);
                Verdict v = check_string(nm, o, dd.name, m.dims[i].name);
                if (!v.ok) return v;
                if (!m.dims[i].name.null && dd.name.str && !blocks.insert(dd.name.str).second) { snprintf(d, sizeof d, "%c.%s shares its buffer", ON[o], nm); return bad("strings-share-memory", d); }
                if ((int)dd.kind != m.dims[i].kind || dd.array_size_px != m.dims[i].a || dd.chunk_size_px != m.dims[i].c || dd.shard_size_chunks != m.dims[i].s) {
                    snprintf(d, sizeof d, "%c.dim[%zu] kind/sizes differ from what was set/copied", ON[o], i); return bad("dimension-fields-wrong", d);
                }
            }
        }
    }
    if (!g_ledger_err.empty()) return bad("allocation-discipline", g_ledger_err);
    return {};
}

#include <csetjmp>
#include <csignal>
static sigjmp_buf g_crash_jmp;
static volatile int g_guard = 0;
static void on_crash(int sig) { if (g_guard) siglongjmp(g_crash_jmp, sig); _exit(128 + sig); }
static Verdict apply_unguarded(World& w, Op op);
// a crash inside a property function (typically a length or pointer read from released memory) is a violation of its own
static Verdict apply(World& w, Op op)
{
    g_guard = 1;
    int sig = sigsetjmp(g_crash_jmp, 1);
    if (sig) { g_guard = 0; char d[96]; snprintf(d, sizeof d, "signal %d inside %s", sig, op_str(op).c_str()); return bad("crash-in-property-function", d); }
    Verdict v = apply_unguarded(w, op);
    g_guard = 0;
    return v;
}
static Verdict apply_unguarded(World& w, Op op)
{
    StorageProperties* p = &w.impl[op.o];
    MObj& m = w.model[op.o];
    switch (op.k) {
        case INIT: {
            PixelScale ps = { 0.5 + op.o, 2.0 };
            int rc = storage_properties_init(p, 7 + op.o, URIS[op.a].p, URIS[op.a].n, METAS[op.b].p, METAS[op.b].n, ps, op.c);
            if (!rc) return bad("call-failed", "storage_properties_init returned 0");
            m = MObj();
            m.uri = model_copy_string(URIS[op.a].p, URIS[op.a].n);
            m.meta = model_copy_string(METAS[op.b].p, METAS[op.b].n);
            m.first = 7 + op.o; m.px = ps.x; m.py = ps.y;
            m.dims.assign(op.c, MDim());
            break;
        }
        case SET_URI: if (!storage_properties_set_uri(p, URIS[op.a].p, URIS[op.a].n)) return bad("call-failed", "set_uri returned 0"); m.uri = model_copy_string(URIS[op.a].p, URIS[op.a].n); break;
        case SET_META: if (!storage_properties_set_external_metadata(p, METAS[op.a].p, METAS[op.a].n)) return bad("call-failed", "set_external_metadata returned 0"); m.meta = model_copy_string(METAS[op.a].p, METAS[op.a].n); break;
        case SET_KEYS: {
            const char* k = KEYS[op.a][0]; const char* s = KEYS[op.a][1];
            if (!storage_properties_set_access_key_and_secret(p, k, strlen(k) + 1, s, strlen(s) + 1)) return bad("call-failed", "set_access_key_and_secret returned 0");
            m.key = model_copy_string(k, strlen(k) + 1); m.secret = model_copy_string(s, strlen(s) + 1);
            break;
        }
        case SET_DIM: {
            int idx = (int)(int8_t)op.a;
            const SVal& nm = NAMES[op.b];
            bool valid = idx >= 0 && (size_t)idx < m.dims.size() && nm.p && nm.n > 0 && nm.p[0] != 0 && op.c < DimensionTypeCount;
            int rc = storage_properties_set_dimension(p, idx, nm.p, nm.n, (DimensionType)op.c, 10 + op.a, 5, 2);
            if (valid && !rc) return bad("call-failed", "set_dimension rejected valid arguments");
            if (!valid && rc) return bad("invalid-arguments-accepted", "set_dimension accepted an out-of-range index / NULL or empty name / invalid kind");
            if (valid) { MDim& d = m.dims[idx]; d.name = model_copy_string(nm.p, nm.n); d.kind = op.c; d.a = 10 + op.a; d.c = 5; d.s = 2; }
            break;
        }
        case SET_MS: storage_properties_set_enable_multiscale(p, op.a); m.ms = op.a; break;
        case COPY: {
            if (!storage_properties_copy(p, &w.impl[op.a])) return bad("call-failed", "storage_properties_copy returned 0");
            const MObj& src = w.model[op.a];
            // destination equals the source in every field; unset source strings become empty strings (copy_string's documented behaviour)
            auto cp = [](const MStr& s) { return s.null ? model_copy_string(nullptr, 0) : s; };
            m.uri = cp(src.uri); m.meta = cp(src.meta); m.key = cp(src.key); m.secret = cp(src.secret);
            m.first = src.first; m.px = src.px; m.py = src.py; m.ms = src.ms;
            m.dims = src.dims;
            for (auto& d : m.dims) d.name = cp(d.name);
            break;
        }
        case DESTROY:
            storage_properties_destroy(p);
            m.uri = m.meta = m.key = m.secret = MStr();
            m.dims.clear();
            break;
    }
    w.pristine[op.o] = (op.k == DESTROY);
    return compare(w, false);
}

// ---- allocation failures: one allocation request of the last call fails.  What the call then returns and which values the objects
// hold is not judged (the property does not say); judged is what it promises for ANY sequence: every stored string keeps a live buffer of
// its own that is NUL-terminated at its recorded length (or is unset), nothing is shared or released twice, nothing crashes, and destroying
// every object afterwards leaves no allocation behind.
static Verdict weak_string(const char* what, int o, const String& s, std::set<const void*>& blocks)
{
    char d[256];
    if (!s.str) { if (s.nbytes) { snprintf(d, sizeof d, "%c.%s: str is NULL but the recorded length is %zu bytes", ON[o], what, s.nbytes); return bad("alloc-failure:string-lost", d); } return {}; }
    auto it = LEDGER.upper_bound((void*)s.str);
    bool inside = false;
    if (it != LEDGER.begin()) { --it; inside = (char*)it->first <= s.str && s.str + s.nbytes <= (char*)it->first + it->second.n && it->second.live; }
    if (!inside) { snprintf(d, sizeof d, "%c.%s (%zu bytes) does not lie in a live allocation of its own", ON[o], what, s.nbytes); return bad("alloc-failure:string-not-owned", d); }
    if (s.nbytes && s.str[s.nbytes - 1] != '\0') { snprintf(d, sizeof d, "%c.%s is not NUL-terminated at its recorded length %zu", ON[o], what, s.nbytes); return bad("alloc-failure:string-not-terminated", d); }
    if (!blocks.insert(s.str).second) { snprintf(d, sizeof d, "%c.%s shares its buffer with another stored string", ON[o], what); return bad("alloc-failure:strings-share-memory", d); }
    return {};
}
static Verdict weak_compare(const World& w)
{
    std::set<const void*> blocks;
    for (int o = 0; o < 3; ++o) {
        if (w.pristine[o]) continue;
        const StorageProperties& p = w.impl[o];
        struct { const char* n; const String* s; } S[] = { { "uri", &p.uri }, { "external_metadata_json", &p.external_metadata_json }, { "access_key_id", &p.access_key_id }, { "secret_access_key", &p.secret_access_key } };
        for (auto& x : S) { Verdict v = weak_string(x.n, o, *x.s, blocks); if (!v.ok) return v; }
        if (p.acquisition_dimensions.size) {
            char d[200];
            auto it = LEDGER.find((void*)p.acquisition_dimensions.data);
            if (!p.acquisition_dimensions.data || it == LEDGER.end() || !it->second.live || it->second.n < p.acquisition_dimensions.size * sizeof(StorageDimension)) {
                snprintf(d, sizeof d, "%c records %zu dimensions but its array is not a live allocation of that size", ON[o], p.acquisition_dimensions.size); return bad("alloc-failure:dimensions-not-owned", d); }
            if (!blocks.insert(p.acquisition_dimensions.data).second) return bad("alloc-failure:dimensions-share-memory", "two objects share a dimension array");
            for (size_t i = 0; i < p.acquisition_dimensions.size; ++i) { char nm[32]; snprintf(nm, sizeof nm, "dim[%zu].name", i); Verdict v = weak_string(nm, o, p.acquisition_dimensions.data[i].name, blocks); if (!v.ok) return v; }
        }
    }
    if (!g_ledger_err.empty()) return bad("alloc-failure:allocation-discipline", g_ledger_err);
    return {};
}
static void call_only(World& w, Op op)
{
    StorageProperties* p = &w.impl[op.o];
    switch (op.k) {
        case INIT: { PixelScale ps = { 0.5 + op.o, 2.0 }; storage_properties_init(p, 7 + op.o, URIS[op.a].p, URIS[op.a].n, METAS[op.b].p, METAS[op.b].n, ps, op.c); break; }
        case SET_URI: storage_properties_set_uri(p, URIS[op.a].p, URIS[op.a].n); break;
        case SET_META: storage_properties_set_external_metadata(p, METAS[op.a].p, METAS[op.a].n); break;
        case SET_KEYS: { const char* k = KEYS[op.a][0]; const char* s2 = KEYS[op.a][1]; storage_properties_set_access_key_and_secret(p, k, strlen(k) + 1, s2, strlen(s2) + 1); break; }
        case SET_DIM: storage_properties_set_dimension(p, (int)(int8_t)op.a, NAMES[op.b].p, NAMES[op.b].n, (DimensionType)op.c, 10 + op.a, 5, 2); break;
        case SET_MS: storage_properties_set_enable_multiscale(p, op.a); break;
        case COPY: storage_properties_copy(p, &w.impl[op.a]); break;
        case DESTROY: storage_properties_destroy(p); break;
    }
    if (op.k == DESTROY) w.pristine[op.o] = true; else w.pristine[op.o] = false;
}
static Verdict finalize(World& w);
// the world holds the replayed history; the last call is made with its k-th allocation request failing
static Verdict apply_with_alloc_failure(World& w, Op op, long k, bool* took_place)
{
    g_alloc_calls = 0; g_fail_at = k; g_alloc_failed = false;
    g_guard = 1;
    int sig = sigsetjmp(g_crash_jmp, 1);
    if (sig) { g_guard = 0; g_fail_at = -1; *took_place = true; char d[128]; snprintf(d, sizeof d, "signal %d inside %s when its allocation request #%ld fails", sig, op_str(op).c_str(), k); return bad("alloc-failure:crash", d); }
    g_track = true; call_only(w, op); g_track = false;
    g_guard = 0; g_fail_at = -1;
    *took_place = g_alloc_failed;
    if (!g_alloc_failed) return {};
    Verdict v = weak_compare(w);
    if (!v.ok) return v;
    g_track = true; v = finalize(w); g_track = false;
    if (!v.ok) v.clause = "alloc-failure:" + v.clause;
    return v;
}

static void world_init(World& w)
{
    memset(&w.impl, 0, sizeof w.impl);
    for (int o = 0; o < 3; ++o) { w.model[o] = MObj(); w.pristine[o] = true; }
}

// after the history: destroy everything; nothing may remain allocated
static Verdict finalize(World& w)
{
    for (int o = 0; o < 3; ++o) storage_properties_destroy(&w.impl[o]);
    if (!g_ledger_err.empty()) return bad("allocation-discipline", g_ledger_err);
    if (g_live) { char d[128]; snprintf(d, sizeof d, "%zu allocation(s) never released after every object was destroyed", g_live); return bad("allocation-leaked", d); }
    return {};
}

static std::string key_of(const World& w)
{
    std::string k;
    auto add = [&](const MStr& s, const String& is) {
        k += s.null ? "~" : s.v; k += '|';
        if (!s.null && is.str) { auto it = LEDGER.find((void*)is.str); k += std::to_string(it == LEDGER.end() ? 0 : it->second.n); }
        k += ';';
    };
    for (int o = 0; o < 3; ++o) {
        const MObj& m = w.model[o]; const StorageProperties& p = w.impl[o];
        add(m.uri, p.uri); add(m.meta, p.external_metadata_json); add(m.key, p.access_key_id); add(m.secret, p.secret_access_key);
        k += std::to_string(m.first) + "," + std::to_string((int)(m.px * 10)) + "," + std::to_string(m.ms) + "," + (w.pristine[o] ? "P" : "L") + "#";
        for (size_t i = 0; i < m.dims.size(); ++i) { static const String none = { nullptr, 0, 0 }; add(m.dims[i].name, p.acquisition_dimensions.data ? p.acquisition_dimensions.data[i].name : none); k += std::to_string(m.dims[i].kind) + "," + std::to_string(m.dims[i].a) + "/"; }
        k += "@";
    }
    return k;
}

struct Viol { std::string clause, detail, ops; uint64_t count; };

static std::string hist_str(const std::vector<Op>& h) { std::string s; for (size_t i = 0; i < h.size(); ++i) { if (i) s += ";"; s += op_str(h[i]); } return s; }

// replay a history on a fresh world; returns the verdict of the first failing step (or of finalize when `fin`)
static Verdict run_history(const std::vector<Op>& h, World& w, bool fin, size_t* failed_at = nullptr)
{
    ledger_reset();
    world_init(w);
    g_track = true;
    Verdict v;
    for (size_t i = 0; i < h.size(); ++i) {
        v = apply(w, h[i]);
        if (!v.ok) { if (failed_at) *failed_at = i; g_track = false; return v; }
    }
    if (fin) v = finalize(w);
    g_track = false;
    return v;
}

int main(int argc, char** argv)
{
    int depth = 3, nobj = 3, alloc_depth = 3; std::string out, replay; size_t max_states = 4000000; double deadline = 0; uint64_t alloc_fault_runs = 0;
    for (int i = 1; i < argc; ++i) {
        std::string a = argv[i];
        if (a == "--depth") depth = atoi(argv[++i]);
        else if (a == "--objects") nobj = atoi(argv[++i]);
        else if (a == "--alloc-depth") alloc_depth = atoi(argv[++i]);
        else if (a == "--out") out = argv[++i];
        else if (a == "--replay") replay = argv[++i];
        else if (a == "--max-states") max_states = strtoull(argv[++i], 0, 10);
        else if (a == "--deadline") deadline = atof(argv[++i]);
        else { fprintf(stderr, "unknown arg %s\n", a.c_str()); return 2; }
    }
    init_inputs();
    build_alphabet(nobj);
    signal(SIGSEGV, on_crash); signal(SIGBUS, on_crash); signal(SIGABRT, on_crash);
    auto t0 = std::chrono::steady_clock::now();

    if (!replay.empty()) {
        std::vector<Op> h;
        size_t p = 0;
        long fail_k = -1;
        { size_t ex = replay.rfind('!'); if (ex != std::string::npos) { fail_k = atol(replay.c_str() + ex + 1); replay.erase(ex); } }
        while (p < replay.size()) {
            size_t q = replay.find(';', p); if (q == std::string::npos) q = replay.size();
            std::string tok = replay.substr(p, q - p); p = q + 1;
            bool found = false;
            for (Op op : ALPHA) if (op_str(op) == tok) { h.push_back(op); found = true; break; }
            if (!found) { fprintf(stderr, "unknown op '%s'\n", tok.c_str()); return 2; }
        }
        World w; size_t at = 0;
        if (fail_k >= 0 && !h.empty()) {
            Op last = h.back(); h.pop_back();
            Verdict v = run_history(h, w, false, &at);
            bool took = false;
            if (v.ok) v = apply_with_alloc_failure(w, last, fail_k, &took);
            for (size_t i = 0; i < h.size(); ++i) printf("%2zu %s\n", i + 1, op_str(h[i]).c_str());
            printf("%2zu %s   [allocation request #%ld of this call fails%s]\n", h.size() + 1, op_str(last).c_str(), fail_k, took ? "" : ": no such request"); 
            if (v.ok) { printf("RESULT ok\n"); return 0; }
            printf("RESULT VIOLATION C13:%s: %s\n", v.clause.c_str(), v.detail.c_str());
            return 1;
        }
        Verdict v = run_history(h, w, true, &at);
        for (size_t i = 0; i < h.size(); ++i) printf("%2zu %s\n", i + 1, op_str(h[i]).c_str());
        if (v.ok) { printf("RESULT ok\n"); return 0; }
        printf("RESULT VIOLATION C13:%s at step %zu: %s\n", v.clause.c_str(), at + 1, v.detail.c_str());
        return 1;
    }

    std::vector<std::vector<Op>> frontier = { {} }, next;
    std::unordered_set<std::string> seen;
    std::map<std::string, Viol> viols;
    uint64_t transitions = 0, states = 1, finals = 0, copies = 0, copies_with_dims = 0, destroys = 0;
    bool capped = false;
    std::vector<std::string> samples;
    { World w; run_history({}, w, false); seen.insert(key_of(w)); }
    for (int d = 0; d < depth && !capped; ++d) {
        next.clear();
        for (auto& h : frontier) {
            if (deadline > 0 && std::chrono::duration<double>(std::chrono::steady_clock::now() - t0).count() > deadline) { capped = true; break; }
            World w;
            for (Op op : ALPHA) {
                Verdict v0 = run_history(h, w, false);
                if (!v0.ok) break; // cannot happen: h was verified when it was created
                if (!enabled(w, op)) continue;
                ++transitions;
                if (op.k == COPY) { ++copies; if (!w.model[op.a].dims.empty()) ++copies_with_dims; }
                if (op.k == DESTROY) ++destroys;
                g_track = true;
                Verdict v = apply(w, op);
                g_track = false;
                std::vector<Op> h2 = h; h2.push_back(op);
                if (v.ok) {
                    // every reached state is also a final state: destroy all, nothing may leak
                    std::string key = key_of(w);
                    g_track = true; Verdict f = finalize(w); g_track = false; ++finals;
                    if (!f.ok) v = f;
                    else if (seen.insert(key).second) {
                        ++states;
                        if (d + 1 < depth) next.push_back(h2);
                        if (samples.size() < 8 && states % 1777 == 5) samples.push_back(hist_str(h2));
                        if (states >= max_states) { capped = true; break; }
                    }
                }
                if (!v.ok) {
                    auto& e = viols[v.clause];
                    if (!e.count) { e.clause = v.clause; e.detail = v.detail; e.ops = hist_str(h2); }
                    ++e.count;
                }
                // the same call with each of its allocation requests failing in turn (histories up to alloc_depth calls)
                if (v.ok && d < alloc_depth && op.k != SET_MS && op.k != DESTROY)
                    for (long k = 0; k < 64; ++k) {
                        World wf;
                        if (!run_history(h, wf, false).ok) break;
                        bool took = false;
                        Verdict vf = apply_with_alloc_failure(wf, op, k, &took);
                        if (!took) break;
                        ++alloc_fault_runs;
                        if (!vf.ok) {
                            auto& e = viols[vf.clause];
                            if (!e.count) { e.clause = vf.clause; e.detail = vf.detail; e.ops = hist_str(h2) + "!" + std::to_string(k); }
                            ++e.count;
                        }
                    }
            }
            if (capped) break;
        }
        frontier.swap(next);
    }
    double wall = std::chrono::duration<double>(std::chrono::steady_clock::now() - t0).count();
    FILE* f = out.empty() ? stdout : fopen(out.c_str(), "w");
    auto esc = [](const std::string& s) { std::string o; for (char c : s) { if (c == '"' || c == '\\') o += '\\'; o += c; } return o; };
    fprintf(f, "{\"runs_with_an_allocation_failure\":%llu,\"depth\":%d,\"objects\":%d,\"alphabet\":%zu,\"states\":%llu,\"transitions\":%llu,\"final_state_checks\":%llu,\"copies\":%llu,\"copies_from_source_with_dimensions\":%llu,\"destroys\":%llu,\"exhaustive\":%s,\"wall_s\":%.3f,\"samples\":[",
            (unsigned long long)alloc_fault_runs, depth, nobj, ALPHA.size(), (unsigned long long)states, (unsigned long long)transitions, (unsigned long long)finals, (unsigned long long)copies, (unsigned long long)copies_with_dims, (unsigned long long)destroys, capped ? "false" : "true", wall);
    for (size_t i = 0; i < samples.size(); ++i) fprintf(f, "%s\"%s\"", i ? "," : "", esc(samples[i]).c_str());
    fprintf(f, "],\"violations\":[");
    bool first = true;
    for (auto& kv : viols) { fprintf(f, "%s{\"clause\":\"%s\",\"detail\":\"%s\",\"ops\":\"%s\",\"count\":%llu}", first ? "" : ",", esc(kv.second.clause).c_str(), esc(kv.second.detail).c_str(), esc(kv.second.ops).c_str(), (unsigned long long)kv.second.count); first = false; }
    fprintf(f, "]}\n");
    if (f != stdout) fclose(f);
    return viols.empty() ? 0 : 1;
}
