// Shared part of the E3 storage-device harnesses (C14, C15, C16): the REAL common driver (raw.c, tiff.cpp,
// side-by-side-tiff.cpp, trash.c, basic.storage.c), the real HAL storage.c/driver.c and the real
// linux/platform.c, on a real scratch directory.  The libc calls platform.c uses for the data path
// (open, close, pwrite) are defined here, in the executable: they forward to the kernel, attribute every
// descriptor to the device or to the harness ("foreign"), and inject the faults the explorer chooses.
#pragma once
#include <cerrno>
#include <cstdarg>
#include <cstdio>
#include <cstdlib>
#include <cstring>
#include <fcntl.h>
#include <set>
#include <string>
#include <sys/stat.h>
#include <sys/syscall.h>
#include <unistd.h>
#include <vector>

extern "C" {
#include "device/hal/storage.h"
#include "device/hal/driver.h"
#include "device/hal/device.manager.h"
#include "device/kit/driver.h"
#include "device/kit/storage.h"
#include "device/props/storage.h"
#include "device/props/components.h"
#include "identifiers.h"
#include "logger.h"
struct Driver* acquire_driver_init_v0(void (*reporter)(int, const char*, int, const char*, const char*));
}

// ---------------------------------------------------------------- fake-kernel front end
enum WKind { W_FULL = 0, W_SHORT_BY_1, W_ONE_BYTE, W_ZERO, W_EIO, W_EINTR /* -1/EINTR: nothing written, the call may be repeated */, W_NKINDS };
struct Env {
    bool in_device = false;           // calls made while a device entry point runs are attributed to the device
    std::set<int> owned;              // descriptors the device opened and has not closed
    std::vector<int> write_plan;      // kind for the k-th device pwrite (default full)
    int persistent_from = -1;         // every device pwrite with index >= this fails with EIO
    int fail_errno = EIO;             // errno of the injected write failures (EIO, ENOSPC, EINTR, EAGAIN)
    bool stall = false;               // the injected failures are stalls instead: pwrite returns 0 (nothing written, no errno)
    int open_fail_at = -1;            // index of the device open() that fails (EACCES); -2: all
    int close_fail_at = -1;           // index of the device close() that reports EIO (the descriptor is released all the same, as on Linux)
    int lock_fail_at = -1;            // index of the device flock() that fails (EWOULDBLOCK: somebody else holds the file); -2: all
    int nlocks = 0;
    int nwrites = 0, nopens = 0, ncloses = 0;
    int failed_writes = 0;            // pwrite calls answered with an error
    int zero_writes = 0;
    std::string err;                  // first descriptor-discipline violation
    std::vector<int> menu_writes;     // how many device pwrites happened (for enumeration)
};
static Env ENV;
static bool g_sparse_writes = false;
static void env_err(const std::string& e) { if (ENV.err.empty()) ENV.err = e; }

extern "C" int open(const char* path, int flags, ...)
{
    mode_t mode = 0;
    if (flags & O_CREAT) { va_list ap; va_start(ap, flags); mode = (mode_t)va_arg(ap, int); va_end(ap); }
    if (ENV.in_device) {
        int k = ENV.nopens++;
        if (ENV.open_fail_at == k || ENV.open_fail_at == -2) { errno = EACCES; return -1; }
    }
    int fd = (int)syscall(SYS_openat, AT_FDCWD, path, flags, mode);
    if (fd >= 0 && ENV.in_device) ENV.owned.insert(fd);
    return fd;
}
extern "C" int open64(const char* path, int flags, ...)
{
    mode_t mode = 0;
    if (flags & O_CREAT) { va_list ap; va_start(ap, flags); mode = (mode_t)va_arg(ap, int); va_end(ap); }
    return open(path, flags, mode);
}
#include <sys/file.h>
extern "C" int flock(int fd, int op)
{
    if (ENV.in_device) {
        int k = ENV.nlocks++;
        if (ENV.lock_fail_at == k || ENV.lock_fail_at == -2) { errno = EWOULDBLOCK; return -1; }
    }
    return (int)syscall(SYS_flock, fd, op);
}
extern "C" int close(int fd)
{
    if (ENV.in_device) {
        ++ENV.ncloses;
        if (!ENV.owned.count(fd)) {
            char m[160];
            snprintf(m, sizeof m, "the device closed descriptor %d, which it does not own (never opened by it, or already closed by it)", fd);
            env_err(m);
            return 0; // protect the harness's own descriptors (stdin, foreign files) from the damage
        }
        ENV.owned.erase(fd);
        if (ENV.close_fail_at >= 0 && ENV.ncloses - 1 == ENV.close_fail_at) { syscall(SYS_close, fd); errno = EIO; return -1; }
    }
    return (int)syscall(SYS_close, fd);
}
extern "C" ssize_t pwrite(int fd, const void* buf, size_t n, off_t off)
{
    if (!ENV.in_device) return syscall(SYS_pwrite64, fd, buf, n, off);
    int k = ENV.nwrites++;
    if (!ENV.owned.count(fd)) {
        char m[160];
        snprintf(m, sizeof m, "the device wrote to descriptor %d, which it does not own (not opened by it, or already closed)", fd);
        env_err(m);
        ++ENV.failed_writes;
        errno = EBADF;
        return -1;
    }
    if (g_sparse_writes && n > (1u << 20)) {
        // large-file scenarios: only the first and last 64 KiB of a large write reach the (sparse) file
        const size_t e = 64 * 1024;
        if (syscall(SYS_pwrite64, fd, buf, e, off) != (ssize_t)e) return -1;
        if (syscall(SYS_pwrite64, fd, (const char*)buf + n - e, e, off + (off_t)(n - e)) != (ssize_t)e) return -1;
        return (ssize_t)n;
    }
    int kind = k < (int)ENV.write_plan.size() ? ENV.write_plan[k] : W_FULL;
    if (ENV.persistent_from >= 0 && k >= ENV.persistent_from) kind = W_EIO;
    switch (kind) {
        case W_SHORT_BY_1: if (n > 1) n -= 1; break;
        case W_ONE_BYTE: if (n > 1) n = 1; break;
        case W_ZERO: ++ENV.zero_writes; return 0;
        case W_EINTR: ++ENV.failed_writes; errno = EINTR; return -1;
        case W_EIO: ++ENV.failed_writes; if (ENV.stall) return 0; errno = ENV.fail_errno; return -1;
    }
    return syscall(SYS_pwrite64, fd, buf, n, off);
}
extern "C" ssize_t pwrite64(int fd, const void* buf, size_t n, off_t off) { return pwrite(fd, buf, n, off); }

// harness-side file helpers: raw syscalls, never attributed to the device
static int h_open(const char* p, int flags, mode_t mode = 0644) { return (int)syscall(SYS_openat, AT_FDCWD, p, flags, mode); }
static void h_close(int fd) { syscall(SYS_close, fd); }
static bool h_read_file(const std::string& path, std::vector<uint8_t>& out)
{
    out.clear();
    int fd = h_open(path.c_str(), O_RDONLY);
    if (fd < 0) return false;
    uint8_t buf[65536];
    for (;;) { ssize_t r = syscall(SYS_read, fd, buf, sizeof buf); if (r <= 0) break; out.insert(out.end(), buf, buf + r); }
    h_close(fd);
    return true;
}
// removes a file, or a tiff-json directory with its two files, without forking
static void h_rm(const std::string& p)
{
    if (unlink(p.c_str()) == 0 || errno == ENOENT) return;
    unlink((p + "/data.tif").c_str()); unlink((p + "/metadata.json").c_str());
    rmdir(p.c_str());
}
static void h_rmtree(const std::string& d) { std::string c = "rm -rf '" + d + "'"; if (system(c.c_str())) {} }

// a foreign descriptor is opened and closed around device calls so that freed numbers are reused at once
static int g_foreign = -1;
static std::string g_scratch;
static bool g_keep_fd0_free = false; // scenarios in which descriptor 0 is free for the device to get (stdin closed): the foreign file stays off it
static void foreign_shuffle()
{
    if (g_foreign >= 0) h_close(g_foreign);
    g_foreign = h_open((g_scratch + "/foreign.bin").c_str(), O_RDWR | O_CREAT, 0644);
    if (g_keep_fd0_free && g_foreign == 0) { g_foreign = (int)syscall(SYS_fcntl, 0, F_DUPFD, 3); h_close(0); }
}

// ---------------------------------------------------------------- devices through the real HAL
static struct Driver* g_driver;
static void quiet_reporter(int, const char*, int, const char*, const char*) {}
extern "C" struct Driver* device_manager_get_driver(const struct DeviceManager*, const struct DeviceIdentifier*) { return g_driver; }

static struct Storage* dev_open(int basic_kind)
{
    static struct DeviceManager dm = { nullptr };
    struct DeviceIdentifier id; memset(&id, 0, sizeof id);
    id.kind = DeviceKind_Storage; id.device_id = (uint8_t)basic_kind;
    ENV.in_device = true;
    struct Storage* s = storage_open(&dm, &id);
    ENV.in_device = false;
    return s;
}
#define DEV(call) (ENV.in_device = true, (call), ENV.in_device = false)

// frames -----------------------------------------------------------------------------------------
static size_t type_bytes(int t) { switch (t) { case SampleType_u8: case SampleType_i8: return 1; case SampleType_f32: return 4; default: return 2; } }
struct FrameSpec { uint32_t w, h; int type; uint64_t id; };
static std::vector<uint8_t> make_frame(const FrameSpec& f, int salt)
{
    size_t img = (size_t)f.w * f.h * type_bytes(f.type);
    size_t nb = (sizeof(struct VideoFrame) + img + 7) / 8 * 8;
    std::vector<uint8_t> b(nb, 0xEE); // padding bytes are visibly not zero
    struct VideoFrame* v = (struct VideoFrame*)b.data();
    memset(v, 0, sizeof *v);
    v->bytes_of_frame = nb;
    v->shape.dims.channels = 1; v->shape.dims.width = f.w; v->shape.dims.height = f.h; v->shape.dims.planes = 1;
    v->shape.strides.channels = 1; v->shape.strides.width = 1; v->shape.strides.height = f.w; v->shape.strides.planes = (int64_t)f.w * f.h;
    v->shape.type = (enum SampleType)f.type;
    v->frame_id = f.id; v->hardware_frame_id = 1000 + 3 * f.id;
    v->timestamps.hardware = 77000 + f.id; v->timestamps.acq_thread = 99000 + 7 * f.id;
    for (size_t i = 0; i < img; ++i) v->data[i] = (uint8_t)(1 + 31 * salt + 7 * f.id + 3 * i);
    return b;
}

static void harness_init(const char* tag)
{
    char d[256];
    const char* root = getenv("VERIF_ROOT"); if (!root || !*root) root = "/verif";
    snprintf(d, sizeof d, "%s/build/fs-%s-%d", root, tag, (int)getpid());
    g_scratch = d;
    h_rmtree(g_scratch);
    { char b[300]; snprintf(b, sizeof b, "%s/build", root); mkdir(b, 0755); }
    mkdir(d, 0755);
    g_driver = acquire_driver_init_v0(quiet_reporter);
    logger_set_reporter(quiet_reporter);
    if (!g_driver) { fprintf(stderr, "driver init failed\n"); exit(2); }
}
static std::string json_esc(const std::string& s) { std::string o; for (char c : s) { if (c == '"' || c == '\\') o += '\\'; if (c == '\n') { o += "\\n"; continue; } o += c; } return o; }
