// E3 / C16: every storage kind of the common driver x every life-cycle history up to a depth x every
// placement of create/write failures (transient or persistent), each run in a forked child (crash,
// unbounded recursion and hang are verdicts).  Oracles: the device leaves the running state by the end of
// an append in which a write failed; it writes to and closes only descriptors it opened, each exactly once.
//   c16_faults --kind K [--depth L] [--pairs 0|1] [--out f.json] [--replay "kind|ops|faults"]
#include "files_common.h"
#include <chrono>
#include <map>
#include <signal.h>
#include <sys/mman.h>
#include <sys/resource.h>
#include <sys/wait.h>

struct Faults { int open_fail = -1; int w1 = -1, w2 = -1; int persistent = -1; int lock_fail = -1; int close_fail = -1; int fd0 = 0; /* descriptor 0 is free when the device creates its files (a process started with stdin closed): the file gets number 0 */ int err = 0; /* 0 EIO, 1 ENOSPC, 2 EINTR, 3 EAGAIN, 4 stall: pwrite returns 0 */ };
static const int ERRNOS[5] = { EIO, ENOSPC, EINTR, EAGAIN, 0 };
static std::string faults_str(const Faults& f)
{
    char b[192]; snprintf(b, sizeof b, "open_fail=%d,w1=%d,w2=%d,persistent=%d,lock_fail=%d,err=%d,close_fail=%d,fd0=%d", f.open_fail, f.w1, f.w2, f.persistent, f.lock_fail, f.err, f.close_fail, f.fd0); return b;
}
static const char* KIND_NAME(int k) { switch (k) { case BasicDevice_Storage_Raw: return "raw"; case BasicDevice_Storage_Tiff: return "tiff"; case BasicDevice_Storage_Trash: return "trash"; case BasicDevice_Storage_SideBySideTiffJson: return "tiff-json"; } return "?"; }

static int g_hangs; // after three hangs the errno variants are not enumerated further (each costs its full time-out)
struct Outcome { char verdict[16]; char clause[64]; char detail[400]; int writes, opens, closes; };

// ops: 's' set, 'r' start, 'a' append (2 frames), 'p' stop; close is implicit at the end
static void child_run(int kind, const std::string& ops, const Faults& f, Outcome* out)
{
    memset(out, 0, sizeof *out);
    strcpy(out->verdict, "ok");
    ENV = Env();
    ENV.open_fail_at = f.open_fail;
    ENV.lock_fail_at = f.lock_fail;
    ENV.close_fail_at = f.close_fail;
    ENV.fail_errno = ERRNOS[f.err % 5]; ENV.stall = (f.err == 4);
    ENV.persistent_from = f.persistent;
    int maxw = f.w2 > f.w1 ? f.w2 : f.w1;
    if (maxw >= 0) { ENV.write_plan.assign(maxw + 1, W_FULL); if (f.w1 >= 0) ENV.write_plan[f.w1] = W_EIO; if (f.w2 >= 0) ENV.write_plan[f.w2] = W_EIO; }
    auto fail = [&](const char* clause, const char* fmt, ...) {
        if (strcmp(out->verdict, "ok")) return;
        strcpy(out->verdict, "viol"); snprintf(out->clause, sizeof out->clause, "%s", clause);
        va_list ap; va_start(ap, fmt); vsnprintf(out->detail, sizeof out->detail, fmt, ap); va_end(ap);
    };
    if (f.fd0) { if (g_foreign >= 0) { h_close(g_foreign); g_foreign = -1; } g_keep_fd0_free = true; h_close(0); }
    foreign_shuffle();
    struct Storage* dev = dev_open(kind);
    if (!dev) { fail("open-failed", "storage_open returned NULL"); return; }
    int nset = 0;
    for (size_t i = 0; i < ops.size(); ++i) {
        foreign_shuffle();
        switch (ops[i]) {
            case 's': {
                std::string uri = g_scratch + "/" + KIND_NAME(kind) + std::to_string(nset++) + (kind == BasicDevice_Storage_SideBySideTiffJson ? ".dir" : ".out");
                struct StorageProperties props; memset(&props, 0, sizeof props);
                struct PixelScale ps = { 1, 1 };
                const char meta[] = "{\"a\":1}";
                storage_properties_init(&props, 0, uri.c_str(), uri.size() + 1, meta, sizeof meta, ps, 0);
                DEV(storage_set(dev, &props));
                storage_properties_destroy(&props);
                break;
            }
            case 'r': DEV(storage_start(dev)); break;
            case 'p': DEV(storage_stop(dev)); break;
            case 'a': {
                FrameSpec a = { 3, 2, SampleType_u16, (uint64_t)i }, b = { 3, 2, SampleType_u16, (uint64_t)i + 1 };
                std::vector<uint8_t> fa = make_frame(a, 1), fb = make_frame(b, 1);
                std::vector<uint64_t> buf((fa.size() + fb.size()) / 8);
                memcpy(buf.data(), fa.data(), fa.size()); memcpy((uint8_t*)buf.data() + fa.size(), fb.data(), fb.size());
                int failed_before = ENV.failed_writes;
                bool was_running = storage_get_state(dev) == DeviceState_Running;
                DEV(storage_append(dev, (const struct VideoFrame*)buf.data(), (const struct VideoFrame*)((uint8_t*)buf.data() + fa.size() + fb.size())));
                // (an interrupted or would-block write may legitimately be retried: only hard errors must end the run)
                // (a single stall may be ridden out too; a disk that stalls for good - every write from k on returns 0 - is a write failure)
                if (was_running && ENV.failed_writes > failed_before && (f.err < 2 || (f.err == 4 && f.persistent >= 0)) && storage_get_state(dev) == DeviceState_Running)
                    fail("write-failure-not-reported", "%s: %d OS write(s) failed during this append, yet the device is still Running when the append returns (the runtime keeps streaming into it)", KIND_NAME(kind), ENV.failed_writes - failed_before);
                break;
            }
        }
        if (!ENV.err.empty()) { fail("descriptor-discipline", "%s after '%c' (step %zu): %s", KIND_NAME(kind), ops[i], i + 1, ENV.err.c_str()); break; }
    }
    foreign_shuffle();
    DEV(storage_close(dev));
    if (!ENV.err.empty()) fail("descriptor-discipline", "%s at close: %s", KIND_NAME(kind), ENV.err.c_str());
    if (!ENV.owned.empty()) fail("descriptor-leaked", "%s: descriptor %d opened by the device was never closed (%zu left open after close)", KIND_NAME(kind), *ENV.owned.begin(), ENV.owned.size());
    out->writes = ENV.nwrites; out->opens = ENV.nopens; out->closes = ENV.ncloses;
}

static Outcome* g_shared;
static void crash_h(int sig)
{
    if (g_shared && !strcmp(g_shared->verdict, "run")) { strcpy(g_shared->verdict, "viol"); snprintf(g_shared->clause, sizeof g_shared->clause, sig == SIGSEGV ? "crash-or-unbounded-recursion" : "crash"); snprintf(g_shared->detail, sizeof g_shared->detail, "signal %d inside the storage device (SIGSEGV with a deep stack = unbounded recursion)", sig); }
    _exit(3);
}
static Outcome run_forked_limit(int kind, const std::string& ops, const Faults& f, unsigned limit_s);
// a history without a verdict inside the wall-clock limit is run again alone with ten times the limit before it is called a hang
static Outcome run_forked(int kind, const std::string& ops, const Faults& f)
{
    Outcome o = run_forked_limit(kind, ops, f, f.err ? 3 : 10);
    if (!strcmp(o.verdict, "viol") && !strcmp(o.clause, "hang")) o = run_forked_limit(kind, ops, f, f.err ? 30 : 100);
    return o;
}
static Outcome run_forked_limit(int kind, const std::string& ops, const Faults& f, unsigned limit_s)
{
    static Outcome* sh = nullptr;
    if (!sh) { sh = (Outcome*)mmap(nullptr, 4096, PROT_READ | PROT_WRITE, MAP_SHARED | MAP_ANONYMOUS, -1, 0); g_shared = sh; }
    memset(sh, 0, sizeof *sh); strcpy(sh->verdict, "run");
    pid_t p = fork();
    if (p == 0) {
        static char alt[1 << 16];
        stack_t ss = { alt, 0, sizeof alt }; sigaltstack(&ss, nullptr);
        struct sigaction sa; memset(&sa, 0, sizeof sa); sa.sa_handler = crash_h; sa.sa_flags = SA_ONSTACK;
        sigaction(SIGSEGV, &sa, nullptr); sigaction(SIGBUS, &sa, nullptr); sigaction(SIGABRT, &sa, nullptr); sigaction(SIGFPE, &sa, nullptr);
        struct rlimit rl = { 4 << 20, 4 << 20 }; setrlimit(RLIMIT_STACK, &rl);
        alarm(limit_s);
        Outcome o; child_run(kind, ops, f, &o);
        *sh = o;
        _exit(0);
    }
    int st = 0; waitpid(p, &st, 0);
    Outcome o = *sh;
    if (!strcmp(o.verdict, "run")) {
        strcpy(o.verdict, "viol");
        if (WIFSIGNALED(st) && WTERMSIG(st) == SIGALRM) { strcpy(o.clause, "hang"); snprintf(o.detail, sizeof o.detail, "the device call did not return within %u s", limit_s); }
        else { strcpy(o.clause, "crash"); snprintf(o.detail, sizeof o.detail, "child ended with wait status 0x%x", st); }
    }
    return o;
}
int main(int argc, char** argv)
{
    int kind = BasicDevice_Storage_Raw, depth = 4, pairs = 1; std::string out, replay;
    for (int i = 1; i < argc; ++i) {
        std::string a = argv[i];
        if (a == "--kind") kind = atoi(argv[++i]);
        else if (a == "--depth") depth = atoi(argv[++i]);
        else if (a == "--pairs") pairs = atoi(argv[++i]);
        else if (a == "--out") out = argv[++i];
        else if (a == "--replay") replay = argv[++i];
        else { fprintf(stderr, "unknown arg %s\n", a.c_str()); return 2; }
    }
    char tag[32]; snprintf(tag, sizeof tag, "c16-%d", kind);
    harness_init(tag);
    auto t0 = std::chrono::steady_clock::now();
    if (!replay.empty()) {
        // "<ops>|open_fail=..,w1=..,w2=..,persistent=.."
        size_t bar = replay.find('|');
        std::string ops = replay.substr(0, bar);
        Faults f;
        if (bar != std::string::npos) sscanf(replay.c_str() + bar + 1, "open_fail=%d,w1=%d,w2=%d,persistent=%d,lock_fail=%d,err=%d,close_fail=%d,fd0=%d", &f.open_fail, &f.w1, &f.w2, &f.persistent, &f.lock_fail, &f.err, &f.close_fail, &f.fd0);
        Outcome o = run_forked(kind, ops, f);
        h_rmtree(g_scratch);
        printf("%s: open;%s;close with %s -> %s %s %s (%d pwrite calls, %d opens)\n", KIND_NAME(kind), ops.c_str(), faults_str(f).c_str(), o.verdict, o.clause, o.detail, o.writes, o.opens);
        return strcmp(o.verdict, "ok") ? 1 : 0;
    }
    struct V { std::string clause, detail, spec; unsigned long long count; };
    std::map<std::string, V> viols;
    unsigned long long histories = 0, runs = 0, with_faults = 0;
    std::vector<std::string> samples;
    std::vector<std::string> seqs = { "" };
    for (int d = 1; d <= depth; ++d) {
        size_t n0 = seqs.size();
        for (size_t i = 0; i < n0; ++i) if ((int)seqs[i].size() == d - 1) for (char c : { 's', 'r', 'a', 'p' }) seqs.push_back(seqs[i] + c);
    }
    auto note = [&](const std::string& ops, const Faults& f, const Outcome& o) {
        ++runs;
        if (!strcmp(o.verdict, "ok")) return;
        auto& e = viols[o.clause];
        if (!e.count) { e.clause = o.clause; e.detail = o.detail; e.spec = ops + "|" + faults_str(f); }
        ++e.count;
    };
    for (const std::string& ops : seqs) {
        ++histories;
        Faults none;
        Outcome base = run_forked(kind, ops, none);
        note(ops, none, base);
        if (samples.size() < 6 && histories % 61 == 7) samples.push_back(std::string(KIND_NAME(kind)) + ": open;" + ops + ";close");
        if (strcmp(base.verdict, "ok")) continue;
        int W = base.writes, O = base.opens;
        for (int j = 0; j < O; ++j) { Faults f; f.open_fail = j; note(ops, f, run_forked(kind, ops, f)); ++with_faults; }
        if (O) { Faults f; f.open_fail = -2; note(ops, f, run_forked(kind, ops, f)); ++with_faults; }
        // the j-th close reports an error (the descriptor is gone all the same): the device must not close or use that number again
        for (int j = 0; j < base.closes; ++j) { Faults f; f.close_fail = j; note(ops, f, run_forked(kind, ops, f)); ++with_faults; }
        // creating a file = open + lock: the lock is refused (another process or device holds the file) at the j-th create, or at all
        for (int j = 0; j < O; ++j) { Faults f; f.lock_fail = j; note(ops, f, run_forked(kind, ops, f)); ++with_faults; }
        if (O) { Faults f; f.lock_fail = -2; note(ops, f, run_forked(kind, ops, f)); ++with_faults; }
        // descriptor 0 is free (stdin closed): the device's first file is number 0, which is as good a descriptor as any other
        { Faults f; f.fd0 = 1; note(ops, f, run_forked(kind, ops, f)); ++with_faults; }
        if (ops.size() <= 3 || ops == "srap" || ops == "sraa" || ops == "srpr" || ops == "srar")
            for (int k = 0; k < W; ++k) {
                Faults f; f.fd0 = 1; f.w1 = k; note(ops, f, run_forked(kind, ops, f)); ++with_faults;
                Faults g; g.fd0 = 1; g.persistent = k; note(ops, g, run_forked(kind, ops, g)); ++with_faults;
            }
        for (int j = 0; j < O && ops.size() <= 3; ++j) { Faults f; f.fd0 = 1; f.lock_fail = j; note(ops, f, run_forked(kind, ops, f)); ++with_faults; }
        // other errno values the OS may answer with (a full disk, an interrupted or would-block write): transient at k, persistent from k
        if (ops.size() <= 3 || ops == "srap" || ops == "sraa")
            for (int k = 0; k < W && g_hangs < 3; ++k)
                for (int e = 1; e < 5; ++e) {
                    Faults f; f.w1 = k; f.err = e; Outcome o1 = run_forked(kind, ops, f); note(ops, f, o1); ++with_faults; if (!strcmp(o1.clause, "hang")) ++g_hangs;
                    Faults g; g.persistent = k; g.err = e; Outcome o2 = run_forked(kind, ops, g); note(ops, g, o2); ++with_faults; if (!strcmp(o2.clause, "hang")) ++g_hangs;
                }
        for (int k = 0; k < W; ++k) {
            Faults f; f.w1 = k; note(ops, f, run_forked(kind, ops, f)); ++with_faults;
            Faults g; g.persistent = k; note(ops, g, run_forked(kind, ops, g)); ++with_faults;
            if (pairs) for (int k2 = k + 1; k2 < W + 2; ++k2) { Faults h; h.w1 = k; h.w2 = k2; note(ops, h, run_forked(kind, ops, h)); ++with_faults; }
        }
    }
    h_rmtree(g_scratch);
    double wall = std::chrono::duration<double>(std::chrono::steady_clock::now() - t0).count();
    FILE* f = out.empty() ? stdout : fopen(out.c_str(), "w");
    fprintf(f, "{\"kind\":\"%s\",\"depth\":%d,\"histories\":%llu,\"runs\":%llu,\"runs_with_faults\":%llu,\"exhaustive\":true,\"wall_s\":%.3f,\"samples\":[", KIND_NAME(kind), depth, histories, runs, with_faults, wall);
    for (size_t i = 0; i < samples.size(); ++i) fprintf(f, "%s\"%s\"", i ? "," : "", json_esc(samples[i]).c_str());
    fprintf(f, "],\"violations\":[");
    bool first = true;
    for (auto& kv : viols) { fprintf(f, "%s{\"clause\":\"%s:%s\",\"detail\":\"%s\",\"spec\":\"%s\",\"count\":%llu}", first ? "" : ",", KIND_NAME(kind), json_esc(kv.second.clause).c_str(), json_esc(kv.second.detail).c_str(), json_esc(kv.second.spec).c_str(), kv.second.count); first = false; }
    fprintf(f, "]}\n");
    if (f != stdout) fclose(f);
    return viols.empty() ? 0 : 1;
}
