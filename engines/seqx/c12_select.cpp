// E3 / C12: device enumeration, selection and opening through the REAL loader (dlopen), device manager,
// HAL and common driver, with stub driver libraries placed next to this executable by the check.
// Patterns are enumerated exhaustively up to a length over a 19-symbol alphabet (plus variants of every
// enumerated name); results are compared with an independent ECMAScript-subset matcher (Thompson NFA).
//   c12_select --maxlen L [--out f.json] [--replay-pattern hexbytes --kind K]
#include <cstdio>
#include <cstdlib>
#include <cstring>
#include <cctype>
#include <chrono>
#include <map>
#include <functional>
#include <set>
#include <string>
#include <vector>

extern "C" {
#include "logger.h"
#include "device/hal/device.manager.h"
#include "device/kit/driver.h"
#include "device/hal/camera.h"
#include "device/hal/storage.h"
#include "device/props/device.h"
}
static void reporter(int, const char*, int, const char*, const char*) {}

// ---------------------------------------------------------------- independent matcher (subset of ECMAScript)
// returns false when the pattern is malformed or uses something outside the subset (then only the weak oracle applies)
struct NFA {
    struct St { int kind; /*0 eps,1 char set,2 accept*/ bool set[256]; int a = -1, b = -1; };
    std::vector<St> s;
    int add(int kind) { s.push_back(St()); s.back().kind = kind; memset(s.back().set, 0, 256); return (int)s.size() - 1; }
};
struct Frag { int start, end; }; // end: an eps state with free 'a'
struct Parser {
    const std::string& p; size_t i = 0; bool ok = true; NFA& n;
    Parser(const std::string& pat, NFA& nfa) : p(pat), n(nfa) {}
    bool more() const { return i < p.size(); }
    static void ci(bool* set, unsigned char c) { set[(unsigned char)tolower(c)] = true; set[(unsigned char)toupper(c)] = true; }
    Frag lit_set(const bool* set) { int a = n.add(1); memcpy(n.s[a].set, set, 256); int e = n.add(0); n.s[a].a = e; return { a, e }; }
    bool escape(bool* set, bool in_class)
    {
        if (!more()) return false;
        unsigned char c = (unsigned char)p[i++];
        auto cls = [&](int (*f)(int), bool neg) { for (int k = 0; k < 256; ++k) if ((f(k) != 0) != neg) set[k] = true; };
        switch (c) {
            case 'd': cls(isdigit, false); return true; case 'D': cls(isdigit, true); return true;
            case 's': cls(isspace, false); return true; case 'S': cls(isspace, true); return true;
            case 'w': for (int k = 0; k < 256; ++k) if (isalnum(k) || k == '_') set[k] = true; return true;
            case 'W': for (int k = 0; k < 256; ++k) if (!(isalnum(k) || k == '_')) set[k] = true; return true;
            case 't': set['\t'] = true; return true; case 'r': set['\r'] = true; return true; case 'n': set['\n'] = true; return true;
            case 'f': set['\f'] = true; return true; case 'v': set['\v'] = true; return true;
            case 'b': case 'B': case 'c': case 'x': case 'u': case '0': case '1': case '2': case '3': case '4': case '5': case '6': case '7': case '8': case '9': return false; // outside the subset
            default: (void)in_class; if (isalpha(c)) return false; /* identity escapes of letters: outside the subset */ ci(set, c); return true;
        }
    }
    Frag atom()
    {
        bool set[256]; memset(set, 0, 256);
        unsigned char c = (unsigned char)p[i];
        if (c == '(') {
            ++i;
            if (i + 1 < p.size() && p[i] == '?') { if (p[i + 1] == ':') i += 2; else { ok = false; return { 0, 0 }; } }
            Frag f = alt();
            if (!ok || !more() || p[i] != ')') { ok = false; return { 0, 0 }; }
            ++i; return f;
        }
        if (c == '[') {
            ++i; bool neg = false;
            if (more() && p[i] == '^') { neg = true; ++i; }
            bool any = false;
            while (more() && p[i] != ']') {
                unsigned char lo = (unsigned char)p[i];
                if (lo == '[' || lo == ':' || lo == 0) { ok = false; return { 0, 0 }; }
                bool one[256]; memset(one, 0, 256);
                if (lo == '\\') { ++i; if (!escape(one, true)) { ok = false; return { 0, 0 }; } for (int k = 0; k < 256; ++k) set[k] |= one[k]; any = true; continue; }
                ++i;
                if (i + 1 < p.size() && p[i] == '-' && p[i + 1] != ']') {
                    unsigned char hi = (unsigned char)p[i + 1];
                    if (hi == '\\' || hi == '[' || hi < lo) { ok = false; return { 0, 0 }; }
                    for (int k = lo; k <= hi; ++k) ci(set, (unsigned char)k);
                    i += 2;
                } else ci(set, lo);
                any = true;
            }
            if (!more() || !any) { ok = false; return { 0, 0 }; }
            ++i;
            if (neg) for (int k = 0; k < 256; ++k) set[k] = !set[k];
            return lit_set(set);
        }
        if (c == '.') { ++i; for (int k = 0; k < 256; ++k) set[k] = !(k == '\n' || k == '\r'); return lit_set(set); }
        if (c == '\\') { ++i; if (!escape(set, false)) { ok = false; return { 0, 0 }; } return lit_set(set); }
        if (c == '*' || c == '+' || c == '?' || c == ')' || c == '|' || c == ']' || c == '{' || c == '}' || c == '^' || c == '$' || c == 0) { ok = false; return { 0, 0 }; }
        ++i; ci(set, c); return lit_set(set);
    }
    Frag quantified()
    {
        Frag f = atom();
        if (!ok) return f;
        if (more() && (p[i] == '*' || p[i] == '+' || p[i] == '?')) {
            char q = p[i++];
            if (more() && p[i] == '?') ++i; // lazy variant: same language
            if (more() && (p[i] == '*' || p[i] == '+' || p[i] == '?')) { ok = false; return f; }
            int s = n.add(0), e = n.add(0);
            if (q == '*') { n.s[s].a = f.start; n.s[s].b = e; n.s[f.end].a = f.start; n.s[f.end].b = e; }
            if (q == '+') { n.s[s].a = f.start; n.s[f.end].a = f.start; n.s[f.end].b = e; }
            if (q == '?') { n.s[s].a = f.start; n.s[s].b = e; n.s[f.end].a = e; }
            return { s, e };
        }
        return f;
    }
    Frag concat()
    {
        int s = n.add(0); Frag cur = { s, s };
        while (ok && more() && p[i] != '|' && p[i] != ')') { Frag f = quantified(); if (!ok) break; n.s[cur.end].a = f.start; cur.end = f.end; }
        return cur;
    }
    Frag alt()
    {
        Frag f = concat();
        while (ok && more() && p[i] == '|') {
            ++i; Frag g = concat();
            int s = n.add(0), e = n.add(0);
            n.s[s].a = f.start; n.s[s].b = g.start; n.s[f.end].a = e; n.s[g.end].a = e;
            f = { s, e };
        }
        return f;
    }
};
static bool compile(const std::string& pat, NFA& n, int& start)
{
    Parser P(pat, n);
    Frag f = P.alt();
    if (!P.ok || P.more()) return false;
    int acc = n.add(2); n.s[f.end].a = acc; start = f.start;
    return true;
}
static void closure(const NFA& n, std::set<int>& S)
{
    std::vector<int> st(S.begin(), S.end());
    while (!st.empty()) { int x = st.back(); st.pop_back(); if (n.s[x].kind != 0) continue; for (int y : { n.s[x].a, n.s[x].b }) if (y >= 0 && S.insert(y).second) st.push_back(y); }
}
static bool full_match(const NFA& n, int start, const char* text)
{
    std::set<int> S = { start }; closure(n, S);
    for (const unsigned char* t = (const unsigned char*)text; *t; ++t) {
        std::set<int> N;
        for (int x : S) if (n.s[x].kind == 1 && n.s[x].set[*t] && n.s[x].a >= 0) N.insert(n.s[x].a);
        closure(n, N); S.swap(N);
        if (S.empty()) return false;
    }
    for (int x : S) if (n.s[x].kind == 2) return true;
    return false;
}

// ---------------------------------------------------------------- harness
static const char ALPHA[] = { 'r', 'a', 'w', 't', '.', '*', '+', '?', '|', '(', ')', '[', ']', '\\', '-', ':', ' ', '\0', 'R' };
struct V { std::string clause, detail, spec; unsigned long long count = 0; };
static std::map<std::string, V> viols;
static void viol(const std::string& clause, const std::string& detail, const std::string& spec)
{
    auto& e = viols[clause];
    if (!e.count) { e.clause = clause; e.detail = detail; e.spec = spec; }
    ++e.count;
}
static std::string hex(const std::string& s) { std::string o; char b[4]; for (unsigned char c : s) { snprintf(b, sizeof b, "%02x", c); o += b; } return o; }
static std::string printable(const std::string& s) { std::string o; for (unsigned char c : s) { if (c == 0) o += "\\0"; else if (c < 32 || c > 126) { char b[8]; snprintf(b, sizeof b, "\\x%02x", c); o += b; } else o += (char)c; } return o; }

static std::vector<DeviceIdentifier> ENUM;
static unsigned long long n_strong, n_weak, n_select;

static unsigned long long n_malformed, n_history_sequences;
static std::string g_history; // selections made just before on the same manager (history sequences): part of the violation's spec
static bool definitely_malformed(const std::string& p)
{
    if (p.find('\\') != std::string::npos) return false;
    int depth = 0;
    for (size_t i = 0; i < p.size(); ++i) {
        if (p[i] == '[') { size_t j = p.find(']', i + 2 <= p.size() ? i + 2 : p.size()); if (j == std::string::npos) return true; i = j; continue; } // "[]" + no later ']' : unterminated as well
        if (p[i] == '(') ++depth;
        else if (p[i] == ')') { if (depth == 0) return false; --depth; } // a stray ')' : leave it to the weak oracle
    }
    return depth > 0;
}
static void check_select(const DeviceManager* dm, int kind, const std::string& pat)
{
    ++n_select;
    DeviceIdentifier out; memset(&out, 0xEE, sizeof out);
    DeviceStatusCode rc;
    try { rc = device_manager_select(dm, (DeviceKind)kind, pat.data(), pat.size(), &out); }
    catch (...) { viol("exception-escaped", "device_manager_select let an exception escape", "kind=" + std::to_string(kind) + " pattern=" + hex(pat)); return; }
    std::string spec = "kind=" + std::to_string(kind) + " pattern=" + hex(pat) + " (" + printable(pat) + ")" + (g_history.empty() ? "" : " after selecting " + g_history + " on the same manager");
    if (rc != Device_Ok && rc != Device_Err) { viol("bad-status", "device_manager_select returned a status that is neither Ok nor Err", spec); return; }
    // weak oracle (always): an Ok result is an enumerated identifier of the requested kind
    int got = -1;
    if (rc == Device_Ok) {
        for (size_t i = 0; i < ENUM.size(); ++i) if (ENUM[i].driver_id == out.driver_id && ENUM[i].device_id == out.device_id && ENUM[i].kind == out.kind && !strncmp(ENUM[i].name, out.name, sizeof out.name)) got = (int)i;
        if (got < 0) { viol("selected-device-not-enumerated", "select returned an identifier that enumeration does not list", spec); return; }
        if ((int)out.kind != kind) { viol("selected-device-of-wrong-kind", std::string("select returned \"") + out.name + "\" whose kind differs from the requested one", spec); return; }
    }
    // strong oracle: inside the matcher's subset
    std::string eff = pat;
    if (!eff.empty() && eff.back() == '\0') eff.erase(eff.find('\0')); // documented: trailing NULs are stripped
    if (eff.find('\0') != std::string::npos) { ++n_weak; return; }
    int want = -1;
    if (eff.empty()) { for (size_t i = 0; i < ENUM.size(); ++i) if ((int)ENUM[i].kind == kind) { want = (int)i; break; } }
    else {
        NFA n; int start = 0;
        if (!compile(eff, n, start)) {
            // outside the reference matcher's subset, or malformed.  Malformed beyond doubt (no escapes, and an opening parenthesis that is
            // never closed or a bracket expression that never ends): the answer is an error whatever was asked before
            if (definitely_malformed(eff)) { ++n_malformed; if (rc == Device_Ok) viol("malformed-pattern-accepted", std::string("select returned \"") + out.name + "\" for a pattern that is not a regular expression", spec); return; }
            ++n_weak; return;
        }
        for (size_t i = 0; i < ENUM.size(); ++i) if ((int)ENUM[i].kind == kind && full_match(n, start, ENUM[i].name)) { want = (int)i; break; }
    }
    ++n_strong;
    if (want < 0 && rc == Device_Ok) viol("selected-without-match", std::string("select returned \"") + out.name + "\" although no enumerated device of that kind matches the whole pattern", spec);
    else if (want >= 0 && rc != Device_Ok) viol("match-not-selected", std::string("select failed although \"") + ENUM[want].name + "\" matches", spec);
    else if (want >= 0 && got != want) viol("not-first-match", std::string("select returned \"") + out.name + "\" but the first enumerated match is \"" + ENUM[want].name + "\"", spec);
}

// ---- device-manager life cycles: two managers (the driver libraries and their module globals are shared between them) are
// initialised, used to open every identifier they enumerate, and destroyed in every well-formed order up to a length; each
// sequence runs in a forked child.  Oracle: every enumerated identifier opens (kind and name as enumerated), nothing crashes.
#include <sys/wait.h>
static std::string open_all(DeviceManager* dm)
{
    uint32_t count = device_manager_count(dm);
    for (uint32_t i = 0; i < count; ++i) {
        DeviceIdentifier id; memset(&id, 0, sizeof id);
        if (device_manager_get(&id, dm, i) != Device_Ok) return "device_manager_get failed for index " + std::to_string(i);
        if (id.kind == DeviceKind_Camera) {
            Camera* c = camera_open(dm, &id);
            if (!c) return std::string("camera_open failed for enumerated \"") + id.name + "\"";
            bool same = c->device.identifier.kind == id.kind && !strncmp(c->device.identifier.name, id.name, sizeof id.name);
            camera_close(c);
            if (!same) return std::string("opening \"") + id.name + "\" yields another device";
        } else if (id.kind == DeviceKind_Storage) {
            Storage* st = storage_open(dm, &id);
            if (!st) return std::string("storage_open failed for enumerated \"") + id.name + "\"";
            bool same = st->device.identifier.kind == id.kind && !strncmp(st->device.identifier.name, id.name, sizeof id.name);
            storage_close(st);
            if (!same) return std::string("opening \"") + id.name + "\" yields another device";
        }
    }
    return "";
}
static void heap_traffic()
{
    // ordinary allocations between the calls: released blocks get reused and overwritten
    void* p[64];
    for (int r = 0; r < 2; ++r) {
        for (int i = 0; i < 64; ++i) { size_t n = 8 + 8 * (size_t)(i % 16); p[i] = malloc(n); if (p[i]) memset(p[i], 0xDD, n); }
        for (int i = 0; i < 64; ++i) free(p[i]);
    }
}
static unsigned long long g_lifecycles;
static void lifecycle_sequences(int maxlen)
{
    // ops: 0 init A, 1 init B, 2 open-all A, 3 open-all B, 4 destroy A, 5 destroy B
    static const char* NAME[] = { "init(A)", "init(B)", "open-all(A)", "open-all(B)", "destroy(A)", "destroy(B)" };
    std::vector<std::vector<int>> seqs;
    std::vector<int> cur;
    std::function<void(bool, bool, bool)> rec = [&](bool la, bool lb, bool used) {
        if (!la && !lb && used && !cur.empty()) seqs.push_back(cur);
        if ((int)cur.size() >= maxlen) return;
        for (int op = 0; op < 6; ++op) {
            bool isA = op % 2 == 0;
            bool live = isA ? la : lb;
            if (op < 2 && live) continue;
            if (op >= 2 && !live) continue;
            if (op >= 2 && op < 4 && !cur.empty() && cur.back() == op) continue; // the same open-all twice in a row adds nothing
            cur.push_back(op);
            bool na = la, nb = lb;
            if (op == 0) na = true; if (op == 1) nb = true; if (op == 4) na = false; if (op == 5) nb = false;
            rec(na, nb, used || (op >= 2 && op < 4));
            cur.pop_back();
        }
    };
    rec(false, false, false);
    for (auto& sq : seqs) {
        std::string spec; for (int op : sq) { if (!spec.empty()) spec += ";"; spec += NAME[op]; }
        ++g_lifecycles;
        int pfd[2]; if (pipe(pfd)) return;
        fflush(stdout);
        pid_t pid = fork();
        if (pid == 0) {
            close(pfd[0]);
            alarm(20);
            DeviceManager M[2] = { { nullptr }, { nullptr } };
            std::string bad;
            try {
                for (int op : sq) {
                    DeviceManager* dm = &M[op % 2];
                    if (op < 2) { if (device_manager_init(dm, reporter) != Device_Ok) { bad = std::string(NAME[op]) + " failed"; break; } }
                    else if (op < 4) { std::string r = open_all(dm); if (!r.empty()) { bad = std::string(NAME[op]) + ": " + r; break; } }
                    else device_manager_destroy(dm);
                    heap_traffic();
                }
            } catch (...) { bad = "an exception escaped"; }
            if (!bad.empty()) { ssize_t w = write(pfd[1], bad.data(), bad.size()); (void)w; _exit(3); }
            _exit(0);
        }
        close(pfd[1]);
        char buf[400]; ssize_t n = read(pfd[0], buf, sizeof buf - 1); if (n < 0) n = 0; buf[n] = 0;
        close(pfd[0]);
        int st = 0; waitpid(pid, &st, 0);
        if (WIFSIGNALED(st)) viol("crash-in-manager-life-cycle", "the process was killed by signal " + std::to_string(WTERMSIG(st)) + " during the sequence", spec);
        else if (WEXITSTATUS(st) == 3) viol("enumerated-device-does-not-open-in-life-cycle", buf, spec);
        else if (WEXITSTATUS(st) != 0) viol("manager-life-cycle-abnormal-exit", "exit status " + std::to_string(WEXITSTATUS(st)), spec);
    }
}

int main(int argc, char** argv)
{
    int maxlen = 3; std::string out, rp; int rkind = 1; int shard = 0, nshard = 1;
    for (int i = 1; i < argc; ++i) {
        std::string a = argv[i];
        if (a == "--maxlen") maxlen = atoi(argv[++i]);
        else if (a == "--out") out = argv[++i];
        else if (a == "--replay-pattern") rp = argv[++i];
        else if (a == "--kind") rkind = atoi(argv[++i]);
        else if (a == "--shard") sscanf(argv[++i], "%d/%d", &shard, &nshard);
        else { fprintf(stderr, "unknown arg %s\n", a.c_str()); return 2; }
    }
    auto t0 = std::chrono::steady_clock::now();
    logger_set_reporter(reporter); // as acquire_init does: with a reporter installed the HAL formats its log messages
    if (shard == 0 && rp.empty()) lifecycle_sequences(7);
    DeviceManager dm = { nullptr };
    DeviceStatusCode irc;
    try { irc = device_manager_init(&dm, reporter); } catch (...) { printf("{\"violations\":[{\"clause\":\"exception-escaped\",\"detail\":\"device_manager_init let an exception escape\",\"spec\":\"init\",\"count\":1}],\"samples\":[]}\n"); return 1; }
    if (irc != Device_Ok) { printf("{\"violations\":[{\"clause\":\"init-failed\",\"detail\":\"device_manager_init failed although absent driver libraries must be tolerated\",\"spec\":\"init\",\"count\":1}],\"samples\":[]}\n"); return 1; }
    uint32_t count = device_manager_count(&dm);
    unsigned long long n_get = 0, n_open = 0;
    // indices: 0..count+2, and values whose low 8 / 16 bits alone would be in range
    std::vector<uint32_t> indices;
    for (uint32_t i = 0; i < count + 3; ++i) indices.push_back(i);
    for (uint32_t base : { 255u, 256u, 512u, 65535u, 65536u, 0x10000u + 256u, 0x7fffffffu, 0x80000000u, 0xffffff00u, 0xffffffffu }) for (uint32_t k = 0; k < 3; ++k) if (base + k >= count + 3) indices.push_back(base + k);
    for (uint32_t i : indices) {
        DeviceIdentifier id; memset(&id, 0, sizeof id);
        DeviceStatusCode rc;
        try { rc = device_manager_get(&id, &dm, i); } catch (...) { viol("exception-escaped", "device_manager_get let an exception escape", "index=" + std::to_string(i)); continue; }
        ++n_get;
        if (i < count) { if (rc != Device_Ok) viol("enumerated-index-rejected", "device_manager_get failed for an index below the count", "index=" + std::to_string(i)); else ENUM.push_back(id); }
        else if (rc == Device_Ok) viol("out-of-range-index-accepted", "device_manager_get succeeded for an index >= count", "index=" + std::to_string(i));
    }
    if (!rp.empty()) {
        std::string pat; for (size_t i = 0; i + 1 < rp.size(); i += 2) pat += (char)strtol(rp.substr(i, 2).c_str(), 0, 16);
        check_select(&dm, rkind, pat);
        for (auto& kv : viols) printf("VIOLATION C12:%s %s | %s\n", kv.second.clause.c_str(), kv.second.detail.c_str(), kv.second.spec.c_str());
        if (viols.empty()) printf("RESULT ok (pattern %s, kind %d)\n", printable(pat).c_str(), rkind);
        return viols.empty() ? 0 : 1;
    }
    // each driver's own describe(): every index at or beyond its device count is an error (the manager only asks below the count)
    {
        std::set<struct Driver*> seen;
        for (auto& id : ENUM) {
            struct Driver* drv = nullptr;
            try { drv = device_manager_get_driver(&dm, &id); } catch (...) { viol("exception-escaped", "device_manager_get_driver let an exception escape", id.name); }
            if (!drv || !seen.insert(drv).second || !drv->device_count || !drv->describe) continue;
            uint32_t n = drv->device_count(drv);
            for (uint64_t i : { (uint64_t)n, (uint64_t)n + 1, (uint64_t)n + 2, (uint64_t)255, (uint64_t)256, (uint64_t)65536, (uint64_t)1 << 32, ((uint64_t)1 << 32) + 1, ~(uint64_t)0 }) {
                if (i < n) continue;
                DeviceIdentifier o; memset(&o, 0, sizeof o);
                if (drv->describe(drv, &o, i) == Device_Ok) viol("driver-describes-out-of-range-index", "a driver's describe() succeeded for an index >= its device_count", std::string(id.name) + " driver, index=" + std::to_string(i));
            }
        }
    }
    // opening every enumerated identifier yields a device of that kind and name
    for (auto& id : ENUM) {
        ++n_open;
        if (id.kind == DeviceKind_Camera) {
            Camera* c = nullptr; try { c = camera_open(&dm, &id); } catch (...) { viol("exception-escaped", "camera_open let an exception escape", id.name); continue; }
            if (!c) { viol("enumerated-device-does-not-open", std::string("camera_open failed for enumerated \"") + id.name + "\"", id.name); continue; }
            if (c->device.identifier.kind != id.kind || strncmp(c->device.identifier.name, id.name, sizeof id.name)) viol("opened-device-differs", std::string("opening \"") + id.name + "\" yields \"" + c->device.identifier.name + "\"", id.name);
            camera_close(c);
        } else if (id.kind == DeviceKind_Storage) {
            Storage* s = nullptr; try { s = storage_open(&dm, &id); } catch (...) { viol("exception-escaped", "storage_open let an exception escape", id.name); continue; }
            if (!s) { viol("enumerated-device-does-not-open", std::string("storage_open failed for enumerated \"") + id.name + "\"", id.name); continue; }
            if (s->device.identifier.kind != id.kind || strncmp(s->device.identifier.name, id.name, sizeof id.name)) viol("opened-device-differs", std::string("opening \"") + id.name + "\" yields \"" + s->device.identifier.name + "\"", id.name);
            storage_close(s);
        }
    }
    // kinds: every value 0..7 and two out-of-range integers, with the empty pattern and ".*"
    for (int kind : { 0, 1, 2, 3, 4, 5, 6, 7, 100, -1 }) { check_select(&dm, kind, ""); check_select(&dm, kind, ".*"); }
    // a NULL name with a non-zero length is an error, not a crash
    { DeviceIdentifier o; DeviceStatusCode rc = Device_Ok; try { rc = device_manager_select(&dm, DeviceKind_Camera, nullptr, 5, &o); } catch (...) { viol("exception-escaped", "select(NULL name, 5 bytes) let an exception escape", "null-name"); } if (rc == Device_Ok) viol("null-name-accepted", "select accepted a NULL name with a non-zero length", "null-name"); }
    // default selection agrees with the patterns it stands for
    for (int kind : { (int)DeviceKind_Camera, (int)DeviceKind_Storage, (int)DeviceKind_Signals }) { DeviceIdentifier o; try { device_manager_select_default(&dm, (DeviceKind)kind, &o); device_manager_select_first(&dm, (DeviceKind)kind, &o); } catch (...) { viol("exception-escaped", "select_default/select_first let an exception escape", "default"); } }
    // all patterns up to maxlen over the alphabet
    std::vector<std::string> pats = { "" };
    size_t lo = 0;
    for (int L = 1; L <= maxlen; ++L) { size_t hi = pats.size(); for (size_t i = lo; i < hi; ++i) for (char c : ALPHA) pats.push_back(pats[i] + c); lo = hi; }
    // variants of every enumerated name
    for (auto& id : ENUM) {
        std::string nm = id.name;
        pats.push_back(nm);
        if (nm.size() > 2) { pats.push_back(nm.substr(0, nm.size() / 2)); pats.push_back(nm.substr(nm.size() / 2)); pats.push_back(nm.substr(0, nm.size() / 2) + ".*"); pats.push_back(".*" + nm.substr(nm.size() / 2)); }
        std::string fl = nm; for (auto& c : fl) c = isupper((unsigned char)c) ? (char)tolower(c) : (char)toupper(c);
        pats.push_back(fl);
        pats.push_back(nm + std::string(1, '\0')); pats.push_back(nm + std::string(3, '\0')); pats.push_back(nm + std::string("\0x", 2));
        std::string esc; for (char c : nm) { if (strchr(".*+?|()[]\\{}^$", c)) esc += '\\'; esc += c; }
        pats.push_back(esc);
        std::string big(255, 'a'); pats.push_back(big); pats.push_back(nm + std::string(255 - nm.size(), '\0'));
    }
    // malformed patterns that are also hostile printf formats (error paths log the exception text; the pattern must never be
    // interpreted as a format), with and without a well-formed prefix
    for (const char* h : { "[%s%s%s%s%s%s%s%s%s%s%s%s%s%s%s%s", "(%n%n%n%n%n%n%n%n", "*%s%s%s%s%s%s%s%s%s%s%s%s", "raw[%s%s%s%s%s%s%s%s%s%s%s%s%s%s%s%s%s%s%s%s%s%s%s%s", "\\%s%s%s%s%s%s%s%s%s%s%s%s(", "%s%s%s%s%s%s%s%s%s%s%s%s", "[%d%x%c", "tiff(%5000s%n" }) pats.push_back(h);
    { std::string a = "[", b = "(", c = "*"; for (int i = 0; i < 100; ++i) a += "%s"; for (int i = 0; i < 100; ++i) b += "%n"; for (int i = 0; i < 60; ++i) c += "%s%n"; pats.push_back(a); pats.push_back(b); pats.push_back(c); }
    for (int kind : { (int)DeviceKind_Camera, (int)DeviceKind_Storage })
        for (size_t i = 0; i < pats.size(); ++i) if ((int)(i % (size_t)nshard) == shard) check_select(&dm, kind, pats[i]);
    // history independence: every sequence of three selections (repetition included) over a small menu of well-formed, non-matching and
    // malformed patterns, on this one manager; each answer is judged as above - what was asked before does not matter
    if (shard == 0) {
        std::vector<std::string> menu = { "", ".*", "zzz", "[", "(", "raw(", ".*[" };
        for (auto& id : ENUM) { std::string nm = id.name; if (menu.size() < 13 && nm.find_first_of(".*+?|()[]\\{}^$") == std::string::npos) { menu.push_back(nm); menu.push_back(nm + "("); } }
        for (size_t a = 0; a < menu.size(); ++a) for (size_t b = 0; b < menu.size(); ++b) for (size_t c = 0; c < menu.size(); ++c)
            for (int kind : { (int)DeviceKind_Camera, (int)DeviceKind_Storage }) {
                ++n_history_sequences;
                g_history.clear(); check_select(&dm, kind, menu[a]);
                g_history = "\"" + printable(menu[a]) + "\""; check_select(&dm, kind, menu[b]);
                g_history += ", \"" + printable(menu[b]) + "\""; check_select(&dm, kind, menu[c]);
                g_history.clear();
            }
    }
    try { device_manager_destroy(&dm); } catch (...) { viol("exception-escaped", "device_manager_destroy let an exception escape", "destroy"); }
    double wall = std::chrono::duration<double>(std::chrono::steady_clock::now() - t0).count();
    FILE* f = out.empty() ? stdout : fopen(out.c_str(), "w");
    auto esc = [](const std::string& s) { std::string o; for (char c : s) { if (c == '"' || c == '\\') o += '\\'; o += c; } return o; };
    fprintf(f, "{\"select_history_sequences\":%llu,\"malformed_beyond_doubt\":%llu,\"manager_life_cycle_sequences\":%llu,\"maxlen\":%d,\"devices_enumerated\":%zu,\"patterns\":%zu,\"select_calls\":%llu,\"judged_by_reference_matcher\":%llu,\"weak_oracle_only\":%llu,\"get_calls\":%llu,\"devices_opened\":%llu,\"exhaustive\":true,\"wall_s\":%.3f,\"samples\":[",
            n_history_sequences, n_malformed, g_lifecycles, maxlen, ENUM.size(), pats.size(), n_select, n_strong, n_weak, n_get, n_open, wall);
    for (size_t i = 0; i < ENUM.size() && i < 12; ++i) fprintf(f, "%s\"enumerated: kind %d %s\"", i ? "," : "", (int)ENUM[i].kind, esc(ENUM[i].name).c_str());
    fprintf(f, "],\"violations\":[");
    bool first = true;
    for (auto& kv : viols) { fprintf(f, "%s{\"clause\":\"%s\",\"detail\":\"%s\",\"spec\":\"%s\",\"count\":%llu}", first ? "" : ",", esc(kv.second.clause).c_str(), esc(kv.second.detail).c_str(), esc(kv.second.spec).c_str(), kv.second.count); first = false; }
    fprintf(f, "]}\n");
    if (f != stdout) fclose(f);
    return viols.empty() ? 0 : 1;
}
