// E3 / C11: explicit-state search of the HAL wrappers (real camera.c, storage.c, driver.c) against a
// recording driver whose every entry point answers from a menu chosen by the explorer.  A state is a
// call/answer history replayed on a fresh device; states are merged on (HAL-visible state, driver
// automaton state), so the search runs to a fixpoint: every call sequence of any length over the
// alphabet is covered, not only sequences up to a depth.
//
//   c11_hal [--out f.json] [--replay "op:a,a;op:a;..."] [--max-depth D]
#include <cstdio>
#include <cstdlib>
#include <cstring>
#include <csetjmp>
#include <csignal>
#include <string>
#include <vector>
#include <map>
#include <set>
#include <deque>
#include <chrono>
#include <sys/mman.h>

extern "C" {
#include "device/hal/camera.h"
#include "device/hal/storage.h"
#include "device/hal/driver.h"
#include "device/hal/device.manager.h"
#include "device/kit/camera.h"
#include "device/kit/storage.h"
#include "device/props/components.h"
// (the real logger is linked; no reporter is installed, so it stays silent)
}

// ---------------------------------------------------------------- answers chosen by the explorer
static std::vector<int> g_script;   // answers to use
static std::vector<int> g_menu;     // menu size seen at each driver entry of this run
static size_t g_ai;
static int choose(int n)
{
    int a = g_ai < g_script.size() ? g_script[g_ai] : 0;
    if (a >= n) a = 0;
    g_menu.push_back(n);
    ++g_ai;
    return a;
}

// ---------------------------------------------------------------- recording driver
struct DevRec {
    void* page = nullptr; bool open = false; bool started = false;
    int opens = 0, closes = 0;
    int last_call = 0, last_answer = -1; // for the state oracle
};
static DevRec CAMR, STOR;
static std::vector<void*> g_closed_pages;
static std::string g_violation, g_detail;
static void viol(const std::string& c, const std::string& d) { if (g_violation.empty()) { g_violation = c; g_detail = d; } }

enum Call { C_SET = 1, C_GET, C_META, C_SHAPE, C_START, C_STOP, C_TRIG, C_FRAME, C_APPEND, C_RESERVE, C_DESTROY, C_CLOSE, C_OPEN };
static const char* call_name(int c) { static const char* n[] = { "?", "set", "get", "get_meta", "get_shape", "start", "stop", "execute_trigger", "get_frame", "append", "reserve_image_shape", "destroy", "close", "open" }; return n[c]; }

static void driver_sees(DevRec& d, const char* dev, int call)
{
    char m[200];
    if (!d.open) { snprintf(m, sizeof m, "driver %s.%s called although the device is not open", dev, call_name(call)); viol("call-on-closed-device", m); return; }
    if (call == C_STOP && !d.started) { snprintf(m, sizeof m, "driver %s.stop without a preceding successful start", dev); viol("stop-without-start", m); }
    if ((call == C_FRAME || call == C_APPEND) && !d.started) { snprintf(m, sizeof m, "driver %s.%s outside the running state", dev, call_name(call)); viol("data-call-outside-run", m); }
    d.last_call = call;
}

// camera entry points
static enum DeviceStatusCode ans_status() { return choose(2) == 0 ? Device_Ok : Device_Err; }
static enum DeviceStatusCode cam_set(struct Camera*, struct CameraProperties*) { driver_sees(CAMR, "camera", C_SET); auto a = ans_status(); CAMR.last_answer = a; return a; }
static enum DeviceStatusCode cam_get(const struct Camera*, struct CameraProperties* p) { driver_sees(CAMR, "camera", C_GET); memset(p, 0, sizeof *p); auto a = ans_status(); return a; }
static enum DeviceStatusCode cam_meta(const struct Camera*, struct CameraPropertyMetadata* m) { driver_sees(CAMR, "camera", C_META); memset(m, 0, sizeof *m); return ans_status(); }
static enum DeviceStatusCode cam_shape(const struct Camera*, struct ImageShape* s) { driver_sees(CAMR, "camera", C_SHAPE); memset(s, 0, sizeof *s); return ans_status(); }
// a start that fails leaves this driver stopped (a legal driver; it makes "is the driver running" a function of its own answers)
static enum DeviceStatusCode cam_start(struct Camera*) { driver_sees(CAMR, "camera", C_START); auto a = ans_status(); CAMR.last_answer = a; CAMR.started = (a == Device_Ok); return a; }
static enum DeviceStatusCode cam_stop(struct Camera*) { driver_sees(CAMR, "camera", C_STOP); auto a = ans_status(); CAMR.last_answer = a; CAMR.started = false; return a; }
static enum DeviceStatusCode cam_trig(struct Camera*) { driver_sees(CAMR, "camera", C_TRIG); return ans_status(); }
static enum DeviceStatusCode cam_frame(struct Camera*, void*, size_t* n, struct ImageInfo*) { driver_sees(CAMR, "camera", C_FRAME); auto a = ans_status(); CAMR.last_answer = a; *n = 0; return a; }

// storage entry points: any DeviceState may be answered; the driver is 'running' exactly while its own last state answer was Running
static enum DeviceState ans_state() { static const enum DeviceState S[] = { DeviceState_Running, DeviceState_Armed, DeviceState_AwaitingConfiguration, DeviceState_Closed }; return S[choose(4)]; }
static enum DeviceState sto_set(struct Storage*, const struct StorageProperties*)
{
    // set reports whether the settings were accepted (Armed) or not; it neither starts nor stops the device, so it may not claim Running
    driver_sees(STOR, "storage", C_SET);
    static const enum DeviceState S[] = { DeviceState_Armed, DeviceState_AwaitingConfiguration, DeviceState_Closed };
    auto a = S[choose(3)]; STOR.last_answer = a; return a;
}
static void sto_get(const struct Storage*, struct StorageProperties* p) { driver_sees(STOR, "storage", C_GET); memset(p, 0, sizeof *p); }
static void sto_meta(const struct Storage*, struct StoragePropertyMetadata* m) { driver_sees(STOR, "storage", C_META); memset(m, 0, sizeof *m); }
static enum DeviceState sto_start(struct Storage*) { driver_sees(STOR, "storage", C_START); auto a = ans_state(); STOR.last_answer = a; STOR.started = (a == DeviceState_Running); return a; }
static enum DeviceState sto_append(struct Storage*, const struct VideoFrame*, size_t*) { driver_sees(STOR, "storage", C_APPEND); auto a = ans_state(); STOR.last_answer = a; if (a != DeviceState_Running) STOR.started = false; /* a storage that leaves Running has stopped itself */ return a; }
static enum DeviceState sto_stop(struct Storage*) { driver_sees(STOR, "storage", C_STOP); static const enum DeviceState S[] = { DeviceState_Armed, DeviceState_AwaitingConfiguration, DeviceState_Running, DeviceState_Closed }; auto a = S[choose(4)]; STOR.last_answer = a; STOR.started = (a == DeviceState_Running); return a; }
static void sto_destroy(struct Storage*) {}
static void sto_reserve(struct Storage*, const struct ImageShape*) { driver_sees(STOR, "storage", C_RESERVE); }

struct CamObj { struct Camera camera; };
struct StoObj { struct Storage storage; };

static enum DeviceStatusCode drv_describe(const struct Driver*, struct DeviceIdentifier* id, uint64_t i)
{
    memset(id, 0, sizeof *id);
    id->device_id = (uint8_t)i; id->kind = i == 0 ? DeviceKind_Camera : DeviceKind_Storage;
    snprintf(id->name, sizeof id->name, "%s", i == 0 ? "mockcam" : "mockstore");
    return Device_Ok;
}
static int g_missing_fn = 0; // storage_open / camera_open interface checks: a driver that leaves an entry point NULL
static enum DeviceStatusCode drv_open(struct Driver*, uint64_t i, struct Device** out)
{
    DevRec& d = i == 0 ? CAMR : STOR;
    if (d.open) viol("open-while-open", "HAL opened a device that is still open");
    if (ans_status() != Device_Ok) { *out = nullptr; return Device_Err; }
    void* pg = mmap(nullptr, 4096, PROT_READ | PROT_WRITE, MAP_PRIVATE | MAP_ANONYMOUS, -1, 0);
    d.page = pg; d.open = true; d.started = false; d.opens++; d.last_answer = -1;
    if (i == 0) {
        CamObj* o = (CamObj*)pg;
        o->camera = Camera{};
        o->camera.state = DeviceState_AwaitingConfiguration;
        o->camera.set = cam_set; o->camera.get = cam_get; o->camera.get_meta = cam_meta; o->camera.get_shape = cam_shape;
        o->camera.start = cam_start; o->camera.stop = cam_stop; o->camera.execute_trigger = cam_trig; o->camera.get_frame = g_missing_fn ? nullptr : cam_frame;
        *out = &o->camera.device;
    } else {
        StoObj* o = (StoObj*)pg;
        o->storage = Storage{};
        o->storage.state = DeviceState_AwaitingConfiguration;
        o->storage.set = sto_set; o->storage.get = sto_get; o->storage.get_meta = sto_meta; o->storage.start = sto_start; o->storage.append = sto_append;
        o->storage.stop = sto_stop; o->storage.destroy = sto_destroy; o->storage.reserve_image_shape = g_missing_fn ? nullptr : sto_reserve;
        *out = &o->storage.device;
    }
    return Device_Ok;
}
static enum DeviceStatusCode drv_close(struct Driver*, struct Device* in)
{
    DevRec* d = (CAMR.open && CAMR.page == (void*)in) ? &CAMR : (STOR.open && STOR.page == (void*)in) ? &STOR : nullptr;
    if (!d) { viol("close-of-unknown-device", "driver close called for a device that is not open (double close?)"); return Device_Err; }
    d->open = false; d->closes++; d->started = false;
    mprotect(d->page, 4096, PROT_NONE); // never unmapped during a run: any later touch faults
    g_closed_pages.push_back(d->page);
    d->page = nullptr;
    return ans_status();
}
static struct Driver DRV = { nullptr, drv_describe, drv_open, drv_close, nullptr };
extern "C" struct Driver* device_manager_get_driver(const struct DeviceManager*, const struct DeviceIdentifier*) { return &DRV; }

// ---------------------------------------------------------------- crash containment
static sigjmp_buf g_jmp;
static volatile int g_guard;
static void* g_fault_addr;
static void on_segv(int sig, siginfo_t* si, void*) { g_fault_addr = si->si_addr; if (g_guard) siglongjmp(g_jmp, sig); _exit(128 + sig); }

// ---------------------------------------------------------------- HAL-level operations
enum Op { O_OPEN = 1, O_SET, O_GET, O_META, O_SHAPE, O_START, O_STOP, O_TRIG, O_FRAME, O_APPEND0, O_APPEND1, O_RESERVE, O_CLOSE, O_VALIDATE, O_STATE, O_NULL_CALLS, O_OPEN_BADKIND, O_OPEN_MISSING_FN, NOPS };
static const char* op_name(int o)
{
    static const char* n[] = { "?", "open", "set", "get", "get_meta", "get_shape", "start", "stop", "trigger", "get_frame", "append(empty)", "append(1 frame)", "reserve", "close", "validate", "get_state", "null-handle-calls", "open(wrong kind)", "open(driver lacks an entry point)" };
    return n[o];
}

struct World { struct Camera* cam = nullptr; struct Storage* sto = nullptr; int kind; enum DeviceState model = DeviceState_Closed; };

static bool op_applies(int kind, int op)
{
    if (kind == 0) return op != O_APPEND0 && op != O_APPEND1 && op != O_RESERVE && op != O_VALIDATE && op != O_OPEN_MISSING_FN;
    return op != O_SHAPE && op != O_TRIG && op != O_FRAME;
}

static const char* st_name(int s) { static const char* n[] = { "Closed", "AwaitingConfiguration", "Armed", "Running" }; return (s >= 0 && s < 4) ? n[s] : "?"; }

// executes one HAL call; updates the reference state machine w.model (the state implied by the driver's last answer)
static void do_op(World& w, int op)
{
    static struct DeviceManager dm = { nullptr };
    struct DeviceIdentifier id; memset(&id, 0, sizeof id);
    id.kind = w.kind == 0 ? DeviceKind_Camera : DeviceKind_Storage; id.device_id = (uint8_t)w.kind;
    static struct CameraProperties cp; static struct StorageProperties sp; static struct ImageShape shape; static struct ImageInfo info;
    static union { struct VideoFrame f; uint8_t raw[sizeof(struct VideoFrame) + 64]; } frame;
    const bool is_open = w.kind == 0 ? w.cam != nullptr : w.sto != nullptr;
    DevRec& rec = w.kind == 0 ? CAMR : STOR;
    size_t before = g_menu.size();
    auto reached = [&]() { return g_menu.size() > before; };
    auto last_ans = [&]() { return rec.last_answer; };
    if (op == O_OPEN || op == O_OPEN_BADKIND || op == O_OPEN_MISSING_FN) {
        if (is_open) return;
        if (op == O_OPEN_BADKIND) id.kind = w.kind == 0 ? DeviceKind_Storage : DeviceKind_Camera;
        g_missing_fn = op == O_OPEN_MISSING_FN;
        if (w.kind == 0) w.cam = camera_open(&dm, &id); else w.sto = storage_open(&dm, &id);
        g_missing_fn = 0;
        bool got = w.kind == 0 ? w.cam != nullptr : w.sto != nullptr;
        if (op == O_OPEN_BADKIND && got) viol("open-accepts-wrong-kind", "open with an identifier of the wrong device kind returned a device");
        if (op == O_OPEN_MISSING_FN && w.kind == 1 && got) viol("open-accepts-incomplete-driver", "storage_open returned a device whose driver lacks a required entry point");
        if (got) w.model = DeviceState_AwaitingConfiguration;
        else if (rec.open) {
            // open failed after the driver had created the device: the HAL must not leak it open for a storage (storage_open closes it);
            // camera_open has no such clean-up: the driver-side device stays open -> recorded by the final "one close per open" check
        }
        return;
    }
    if (op == O_VALIDATE) {
        if (is_open) return;
        storage_validate(&dm, &id, &sp);
        return;
    }
    if (op == O_NULL_CALLS) {
        if (is_open) return;
        // HAL calls on a NULL handle must fail cleanly
        if (w.kind == 0) {
            size_t n = 0;
            if (camera_set(nullptr, &cp) != Device_Err || camera_start(nullptr) != Device_Err || camera_stop(nullptr) != Device_Err || camera_get_frame(nullptr, frame.raw, &n, &info) != Device_Err || camera_get_state(nullptr) != DeviceState_Closed)
                viol("null-handle-not-rejected", "a camera HAL call on a NULL handle did not report an error");
            camera_close(nullptr);
        } else {
            if (storage_set(nullptr, &sp) != Device_Err || storage_start(nullptr) != Device_Err || storage_stop(nullptr) != Device_Err || storage_append(nullptr, &frame.f, &frame.f) != Device_Err || storage_get_state(nullptr) != DeviceState_Closed)
                viol("null-handle-not-rejected", "a storage HAL call on a NULL handle did not report an error");
            storage_close(nullptr);
        }
        return;
    }
    if (!is_open) return;
    if (w.kind == 0) {
        struct Camera* c = w.cam;
        switch (op) {
            case O_SET: {
                enum DeviceState prev = w.model;
                enum DeviceStatusCode rc = camera_set(c, &cp);
                if (reached()) {
                    // answers consumed: set [, stop]
                    if (rc == Device_Ok) w.model = prev == DeviceState_Running ? DeviceState_Running : DeviceState_Armed;
                    else w.model = DeviceState_AwaitingConfiguration;
                }
                break;
            }
            case O_GET: camera_get(c, &cp); break;
            case O_META: { struct CameraPropertyMetadata m; camera_get_meta(c, &m); break; }
            case O_SHAPE: camera_get_image_shape(c, &shape); break;
            case O_START: {
                enum DeviceStatusCode rc = camera_start(c);
                if (reached()) w.model = rc == Device_Ok ? DeviceState_Running : DeviceState_AwaitingConfiguration;
                break;
            }
            case O_STOP: {
                enum DeviceStatusCode rc = camera_stop(c);
                if (reached()) w.model = rc == Device_Ok ? DeviceState_Armed : DeviceState_AwaitingConfiguration;
                break;
            }
            case O_TRIG: camera_execute_trigger(c); break;
            case O_FRAME: {
                size_t n = sizeof frame;
                enum DeviceStatusCode rc = camera_get_frame(c, frame.raw, &n, &info);
                if (reached() && rc != Device_Ok) w.model = DeviceState_AwaitingConfiguration;
                break;
            }
            case O_STATE: break;
            case O_CLOSE: camera_close(c); w.cam = nullptr; w.model = DeviceState_Closed; return;
        }
        if (!g_violation.empty()) return;
        enum DeviceState got = camera_get_state(c);
        if (got != w.model) { char m[200]; snprintf(m, sizeof m, "after camera %s the HAL reports %s; the driver's last response implies %s", op_name(op), st_name(got), st_name(w.model)); viol("hal-state-does-not-follow-driver", m); }
        // the reported state and the driver's own run state (a function of its answers: started by a successful start, stopped by
        // stop or a failed start) agree: a HAL that reports "not running" for a camera it never told to stop has lost track of it
        else if ((got == DeviceState_Running) != CAMR.started) { char m[200]; snprintf(m, sizeof m, "after camera %s the HAL reports %s but the driver %s", op_name(op), st_name(got), CAMR.started ? "was started and never told to stop" : "is not running"); viol("hal-state-disagrees-with-driver-run-state", m); }
    } else {
        struct Storage* s = w.sto;
        switch (op) {
            case O_SET: {
                enum DeviceState prev = w.model;
                storage_set(s, &sp);
                if (reached()) { enum DeviceState a = (enum DeviceState)last_ans(); w.model = (prev == DeviceState_Running && a == DeviceState_Armed) ? DeviceState_Running : a; }
                break;
            }
            case O_GET: storage_get(s, &sp); break;
            case O_META: { struct StoragePropertyMetadata m; storage_get_meta(s, &m); break; }
            case O_START: storage_start(s); if (reached()) w.model = (enum DeviceState)last_ans(); break;
            case O_STOP: storage_stop(s); if (reached()) w.model = (enum DeviceState)last_ans(); break;
            case O_APPEND0: storage_append(s, &frame.f, &frame.f); break;
            case O_APPEND1: {
                memset(&frame, 0, sizeof frame); frame.f.bytes_of_frame = sizeof(struct VideoFrame) + 8;
                storage_append(s, &frame.f, (const struct VideoFrame*)(frame.raw + sizeof(struct VideoFrame) + 8));
                if (reached()) w.model = (enum DeviceState)last_ans();
                break;
            }
            case O_RESERVE: storage_reserve_image_shape(s, &shape); break;
            case O_STATE: break;
            case O_CLOSE: storage_close(s); w.sto = nullptr; w.model = DeviceState_Closed; return;
        }
        if (!g_violation.empty()) return;
        enum DeviceState got = storage_get_state(s);
        if (got != w.model) { char m[200]; snprintf(m, sizeof m, "after storage %s the HAL reports %s; the driver's last response implies %s", op_name(op), st_name(got), st_name(w.model)); viol("hal-state-does-not-follow-driver", m); }
    }
}

struct Step { int op; std::vector<int> answers; };
typedef std::vector<Step> History;

static void reset_world()
{
    for (void* p : g_closed_pages) munmap(p, 4096);
    g_closed_pages.clear();
    if (CAMR.page) munmap(CAMR.page, 4096);
    if (STOR.page) munmap(STOR.page, 4096);
    CAMR = DevRec(); STOR = DevRec();
    g_violation.clear(); g_detail.clear();
}

// runs a history (+ one extra step); returns state key; collects violation + menus of the last step
static std::string run(int kind, const History& h, const Step* extra, std::vector<int>* menu_of_extra)
{
    reset_world();
    World w; w.kind = kind;
    g_guard = 1;
    int sig = sigsetjmp(g_jmp, 1);
    if (sig) {
        g_guard = 0;
        bool closed = false;
        for (void* p : g_closed_pages) if ((char*)g_fault_addr >= (char*)p && (char*)g_fault_addr < (char*)p + 4096) closed = true;
        char m[200];
        snprintf(m, sizeof m, "signal %d at %p: %s", sig, g_fault_addr, closed ? "memory of a device the driver had already released was touched (even a write of the state field counts)" : "crash inside the HAL");
        g_violation.clear();
        viol(closed ? "touch-after-close" : "crash", m);
        if (menu_of_extra) *menu_of_extra = g_menu;
        return "crashed";
    }
    for (size_t i = 0; i < h.size() + (extra ? 1 : 0); ++i) {
        const Step& s = i < h.size() ? h[i] : *extra;
        g_script = s.answers; g_menu.clear(); g_ai = 0;
        do_op(w, s.op);
        if (!g_violation.empty()) break;
    }
    g_guard = 0;
    if (menu_of_extra) *menu_of_extra = g_menu;
    DevRec& rec = kind == 0 ? CAMR : STOR;
    bool is_open = kind == 0 ? w.cam != nullptr : w.sto != nullptr;
    // one close per open, judged whenever the client holds no handle
    if (g_violation.empty() && !is_open && rec.opens != rec.closes + (rec.open ? 1 : 0)) viol("open-close-mismatch", "driver opens and closes do not pair up");
    if (g_violation.empty() && !is_open && rec.open && kind == 1) viol("device-leaked-open", "the HAL returned no handle (or gave it up) but the driver-side storage device is still open");
    char key[128];
    snprintf(key, sizeof key, "k%d open%d hal%d model%d drvopen%d started%d", kind, is_open, is_open ? (kind == 0 ? (int)camera_get_state(w.cam) : (int)storage_get_state(w.sto)) : -1, (int)w.model, rec.open, rec.started);
    return key;
}

static std::string hist_str(const History& h)
{
    std::string s;
    for (size_t i = 0; i < h.size(); ++i) {
        if (i) s += ";";
        s += op_name(h[i].op);
        if (!h[i].answers.empty()) { s += ":"; for (size_t j = 0; j < h[i].answers.size(); ++j) { if (j) s += ","; s += std::to_string(h[i].answers[j]); } }
    }
    return s;
}

int main(int argc, char** argv)
{
    std::string out, replay; int max_depth = 64; int only_kind = -1;
    for (int i = 1; i < argc; ++i) {
        std::string a = argv[i];
        if (a == "--out") out = argv[++i];
        else if (a == "--replay") replay = argv[++i];
        else if (a == "--max-depth") max_depth = atoi(argv[++i]);
        else if (a == "--kind") only_kind = atoi(argv[++i]);
        else { fprintf(stderr, "unknown arg %s\n", a.c_str()); return 2; }
    }
    struct sigaction sa; memset(&sa, 0, sizeof sa); sa.sa_sigaction = on_segv; sa.sa_flags = SA_SIGINFO | SA_NODEFER;
    sigaction(SIGSEGV, &sa, nullptr); sigaction(SIGBUS, &sa, nullptr);
    auto t0 = std::chrono::steady_clock::now();

    if (!replay.empty()) {
        // "<kind>|op:a,b;op;..."
        int kind = replay[0] - '0';
        History h;
        size_t p = 2;
        while (p < replay.size()) {
            size_t q = replay.find(';', p); if (q == std::string::npos) q = replay.size();
            std::string tok = replay.substr(p, q - p); p = q + 1;
            std::string name = tok.substr(0, tok.find(':'));
            Step s; s.op = 0;
            for (int o = 1; o < NOPS; ++o) if (name == op_name(o)) s.op = o;
            if (!s.op) { fprintf(stderr, "unknown op %s\n", name.c_str()); return 2; }
            if (tok.find(':') != std::string::npos) { const char* c = tok.c_str() + tok.find(':') + 1; while (*c) { s.answers.push_back((int)strtol(c, (char**)&c, 10)); if (*c == ',') ++c; } }
            h.push_back(s);
        }
        std::string key = run(kind, h, nullptr, nullptr);
        printf("%s history: %s\nfinal: %s\n", kind == 0 ? "camera" : "storage", hist_str(h).c_str(), key.c_str());
        if (g_violation.empty()) { printf("RESULT ok\n"); return 0; }
        printf("RESULT VIOLATION C11:%s %s\n", g_violation.c_str(), g_detail.c_str());
        return 1;
    }

    struct V { std::string clause, detail, hist; unsigned long long count; };
    std::map<std::string, V> viols;
    unsigned long long states = 0, transitions = 0, driver_entries = 0;
    int maxdepth_seen = 0;
    std::vector<std::string> samples;
    for (int kind = 0; kind < 2; ++kind) {
        if (only_kind >= 0 && kind != only_kind) continue;
        std::map<std::string, History> seen;
        std::deque<std::string> queue;
        std::string k0 = run(kind, {}, nullptr, nullptr);
        seen[k0] = {}; queue.push_back(k0); ++states;
        while (!queue.empty()) {
            std::string k = queue.front(); queue.pop_front();
            History h = seen[k];
            if ((int)h.size() >= max_depth) continue;
            for (int op = 1; op < NOPS; ++op) {
                if (!op_applies(kind, op)) continue;
                // odometer over the answers of every driver entry this call reaches
                std::vector<int> script;
                for (;;) {
                    Step st; st.op = op; st.answers = script;
                    std::vector<int> menu;
                    std::string k2 = run(kind, h, &st, &menu);
                    st.answers.resize(menu.size(), 0);
                    for (size_t i = 0; i < menu.size() && i < script.size(); ++i) st.answers[i] = script[i] < menu[i] ? script[i] : 0;
                    ++transitions; driver_entries += menu.size();
                    History h2 = h; h2.push_back(st);
                    if (!g_violation.empty()) {
                        std::string fp = std::string(kind == 0 ? "camera:" : "storage:") + g_violation;
                        auto& e = viols[fp];
                        if (!e.count) { e.clause = fp; e.detail = g_detail; e.hist = std::to_string(kind) + "|" + hist_str(h2); }
                        ++e.count;
                    } else if (!seen.count(k2)) {
                        seen[k2] = h2; queue.push_back(k2); ++states;
                        if ((int)h2.size() > maxdepth_seen) maxdepth_seen = (int)h2.size();
                        if (samples.size() < 10) samples.push_back(std::string(kind == 0 ? "camera: " : "storage: ") + hist_str(h2) + " -> " + k2);
                    }
                    // next script: increment like an odometer over `menu`
                    script = st.answers;
                    int i = (int)menu.size() - 1;
                    while (i >= 0) { if (script[i] + 1 < menu[i]) { script[i]++; break; } script[i] = 0; --i; }
                    if (i < 0) break;
                    script.resize(i + 1); // later entries may not exist on the new path
                }
            }
        }
    }
    double wall = std::chrono::duration<double>(std::chrono::steady_clock::now() - t0).count();
    FILE* f = out.empty() ? stdout : fopen(out.c_str(), "w");
    auto esc = [](const std::string& s) { std::string o; for (char c : s) { if (c == '"' || c == '\\') o += '\\'; o += c; } return o; };
    fprintf(f, "{\"states\":%llu,\"transitions\":%llu,\"driver_entries_answered\":%llu,\"longest_shortest_history\":%d,\"fixpoint\":true,\"wall_s\":%.3f,\"samples\":[", states, transitions, driver_entries, maxdepth_seen, wall);
    for (size_t i = 0; i < samples.size(); ++i) fprintf(f, "%s\"%s\"", i ? "," : "", esc(samples[i]).c_str());
    fprintf(f, "],\"violations\":[");
    bool first = true;
    for (auto& kv : viols) { fprintf(f, "%s{\"clause\":\"%s\",\"detail\":\"%s\",\"history\":\"%s\",\"count\":%llu}", first ? "" : ",", esc(kv.second.clause).c_str(), esc(kv.second.detail).c_str(), esc(kv.second.hist).c_str(), kv.second.count); first = false; }
    fprintf(f, "]}\n");
    if (f != stdout) fclose(f);
    return viols.empty() ? 0 : 1;
}
