// E3 / C15: tiff and tiff-json devices through the real HAL and platform.c on real files; every produced
// file is parsed by an INDEPENDENT BigTIFF reader and a small JSON parser written from the format
// descriptions (they share nothing with tiff.cpp).
//   c15_tiff [--cycles 1|2] [--out f.json] [--replay spec]
#include "files_common.h"
#include <sys/wait.h>
#include <algorithm>
#include <chrono>
#include <map>
#include <memory>

// ---------------------------------------------------------------- minimal JSON
struct JV { enum T { NUL, BOOL, NUM, STR, OBJ, ARR } t = NUL; double num = 0; std::string str; std::vector<std::pair<std::string, std::shared_ptr<JV>>> obj; std::vector<std::shared_ptr<JV>> arr; bool b = false; std::string numtext; };
struct JP {
    const char* p; const char* e; bool ok = true;
    void ws() { while (p < e && (*p == ' ' || *p == '\n' || *p == '\t' || *p == '\r')) ++p; }
    std::shared_ptr<JV> val()
    {
        ws(); auto v = std::make_shared<JV>();
        if (p >= e) { ok = false; return v; }
        if (*p == '{') {
            v->t = JV::OBJ; ++p; ws();
            if (p < e && *p == '}') { ++p; return v; }
            for (;;) {
                ws(); if (p >= e || *p != '"') { ok = false; return v; }
                auto k = val(); ws(); if (!ok || p >= e || *p != ':') { ok = false; return v; } ++p;
                auto x = val(); if (!ok) return v;
                v->obj.push_back({ k->str, x }); ws();
                if (p < e && *p == ',') { ++p; continue; }
                if (p < e && *p == '}') { ++p; return v; }
                ok = false; return v;
            }
        }
        if (*p == '[') {
            v->t = JV::ARR; ++p; ws();
            if (p < e && *p == ']') { ++p; return v; }
            for (;;) { auto x = val(); if (!ok) return v; v->arr.push_back(x); ws(); if (p < e && *p == ',') { ++p; continue; } if (p < e && *p == ']') { ++p; return v; } ok = false; return v; }
        }
        if (*p == '"') { v->t = JV::STR; ++p; while (p < e && *p != '"') { if (*p == '\\' && p + 1 < e) ++p; v->str += *p++; } if (p >= e) { ok = false; return v; } ++p; return v; }
        if (!strncmp(p, "true", 4)) { v->t = JV::BOOL; v->b = true; p += 4; return v; }
        if (!strncmp(p, "false", 5)) { v->t = JV::BOOL; p += 5; return v; }
        if (!strncmp(p, "null", 4)) { p += 4; return v; }
        const char* s = p; if (p < e && (*p == '-' || *p == '+')) ++p; while (p < e && (isdigit((unsigned char)*p) || *p == '.' || *p == 'e' || *p == 'E' || *p == '-' || *p == '+')) ++p;
        if (p == s) { ok = false; return v; }
        v->t = JV::NUM; v->numtext.assign(s, p); v->num = atof(v->numtext.c_str()); return v;
    }
};
static std::shared_ptr<JV> json_parse(const std::string& s, bool& ok) { JP j{ s.data(), s.data() + s.size() }; auto v = j.val(); j.ws(); ok = j.ok && j.p == j.e; return v; }
static const JV* jget(const JV* o, const char* k) { if (!o || o->t != JV::OBJ) return nullptr; for (auto& kv : o->obj) if (kv.first == k) return kv.second.get(); return nullptr; }
static bool jeq(const JV* a, const JV* b)
{
    if (!a || !b || a->t != b->t) return false;
    switch (a->t) {
        case JV::NUM: return a->numtext == b->numtext; case JV::STR: return a->str == b->str; case JV::BOOL: return a->b == b->b; case JV::NUL: return true;
        case JV::ARR: if (a->arr.size() != b->arr.size()) return false; for (size_t i = 0; i < a->arr.size(); ++i) if (!jeq(a->arr[i].get(), b->arr[i].get())) return false; return true;
        case JV::OBJ: if (a->obj.size() != b->obj.size()) return false; for (size_t i = 0; i < a->obj.size(); ++i) if (a->obj[i].first != b->obj[i].first || !jeq(a->obj[i].second.get(), b->obj[i].second.get())) return false; return true;
    }
    return false;
}

// ---------------------------------------------------------------- independent BigTIFF reader
struct Entry { uint16_t tag, type; uint64_t count, value; uint64_t value_field_off; };
struct Dir { uint64_t off; std::vector<Entry> e; uint64_t next; };
struct View { const uint8_t* p; size_t n; size_t size() const { return n; } const uint8_t& operator[](size_t i) const { return p[i]; } };
static uint64_t rd(const View& b, uint64_t off, int n) { uint64_t v = 0; for (int i = 0; i < n; ++i) v |= (uint64_t)b[off + i] << (8 * i); return v; }
static const Entry* find(const Dir& d, uint16_t tag) { for (auto& e : d.e) if (e.tag == tag) return &e; return nullptr; }
static uint64_t scalar(const Entry& e) { switch (e.type) { case 1: case 2: return e.value & 0xff; case 3: return e.value & 0xffff; case 4: return e.value & 0xffffffffu; default: return e.value; } }

struct Expect { FrameSpec spec; std::vector<uint8_t> pixels; uint64_t hw, ts_hw, ts_rt; size_t big_size = 0; std::vector<uint8_t> head, tail; /* large frames: only the edges are kept */ };

static std::string check_tiff(const View& b, const std::vector<Expect>& frames, const std::string& user_meta, bool meta_in_first)
{
    char m[400];
    if (b.size() < 16) { snprintf(m, sizeof m, "file-too-short|file has %zu bytes, a BigTIFF header needs 16", b.size()); return m; }
    if (b[0] != 'I' || b[1] != 'I') return "not-little-endian|byte-order mark is not 'II'";
    if (rd(b, 2, 2) != 43) return "not-bigtiff|version is not 43";
    if (rd(b, 4, 2) != 8 || rd(b, 6, 2) != 0) return "not-bigtiff|offset size is not 8 / reserved not 0";
    std::vector<std::pair<uint64_t, uint64_t>> ranges = { { 0, 16 } };
    std::vector<const char*> what = { "header" };
    std::vector<Dir> dirs;
    uint64_t off = rd(b, 8, 8);
    while (off) {
        if (dirs.size() > frames.size() + 4) return "directory-chain-too-long|more directories than frames (cycle in the chain?)";
        if (off + 8 > b.size()) { snprintf(m, sizeof m, "offset-outside-file|directory %zu at offset %llu lies outside the file of %zu bytes (unterminated chain: the last 'next' link is not 0)", dirs.size(), (unsigned long long)off, b.size()); return m; }
        Dir d; d.off = off;
        uint64_t n = rd(b, off, 8);
        if (n > 64 || off + 8 + 20 * n + 8 > b.size()) { snprintf(m, sizeof m, "offset-outside-file|directory %zu with %llu entries at %llu overruns the file", dirs.size(), (unsigned long long)n, (unsigned long long)off); return m; }
        for (uint64_t i = 0; i < n; ++i) { uint64_t eo = off + 8 + 20 * i; d.e.push_back({ (uint16_t)rd(b, eo, 2), (uint16_t)rd(b, eo + 2, 2), rd(b, eo + 4, 8), rd(b, eo + 12, 8), eo + 12 }); }
        d.next = rd(b, off + 8 + 20 * n, 8);
        ranges.push_back({ off, off + 8 + 20 * n + 8 }); what.push_back("directory");
        dirs.push_back(d);
        off = d.next;
    }
    if (dirs.size() != frames.size()) { snprintf(m, sizeof m, "wrong-directory-count|the chain has %zu directories, %zu frames were appended", dirs.size(), frames.size()); return m; }
    for (size_t i = 0; i < dirs.size(); ++i) {
        const Dir& d = dirs[i]; const Expect& f = frames[i];
        auto need = [&](uint16_t tag, const char* name) -> const Entry* { const Entry* e = find(d, tag); if (!e) snprintf(m, sizeof m, "tag-missing|directory %zu lacks %s (tag %u)", i, name, tag); return e; };
        const Entry* w = need(256, "ImageWidth"); if (!w) return m;
        const Entry* h = need(257, "ImageLength"); if (!h) return m;
        const Entry* bps = need(258, "BitsPerSample"); if (!bps) return m;
        const Entry* sf = need(339, "SampleFormat"); if (!sf) return m;
        const Entry* so = need(273, "StripOffsets"); if (!so) return m;
        const Entry* sc = need(279, "StripByteCounts"); if (!sc) return m;
        const Entry* desc = need(270, "ImageDescription"); if (!desc) return m;
        if (scalar(*w) != f.spec.w || scalar(*h) != f.spec.h) { snprintf(m, sizeof m, "wrong-shape|directory %zu says %llux%llu, frame %zu is %ux%u", i, (unsigned long long)scalar(*w), (unsigned long long)scalar(*h), i, f.spec.w, f.spec.h); return m; }
        if (scalar(*bps) != 8 * type_bytes(f.spec.type)) { snprintf(m, sizeof m, "wrong-bits-per-sample|directory %zu says %llu bits, sample type %d has %zu", i, (unsigned long long)scalar(*bps), f.spec.type, 8 * type_bytes(f.spec.type)); return m; }
        uint64_t want_sf = (f.spec.type == SampleType_i8 || f.spec.type == SampleType_i16) ? 2 : f.spec.type == SampleType_f32 ? 3 : 1;
        if (scalar(*sf) != want_sf) { snprintf(m, sizeof m, "wrong-sample-format|directory %zu says format %llu, sample type %d needs %llu", i, (unsigned long long)scalar(*sf), f.spec.type, (unsigned long long)want_sf); return m; }
        uint64_t soff = scalar(*so), slen = scalar(*sc);
        if (soff + slen > b.size() || soff + slen < soff) { snprintf(m, sizeof m, "offset-outside-file|strip of directory %zu [%llu,+%llu) leaves the file", i, (unsigned long long)soff, (unsigned long long)slen); return m; }
        const size_t want_len = f.big_size ? f.big_size : f.pixels.size();
        if (slen < want_len) { snprintf(m, sizeof m, "strip-too-short|strip of directory %zu has %llu bytes, the image has %zu", i, (unsigned long long)slen, want_len); return m; }
        bool same;
        if (f.big_size) same = !memcmp(&b[soff], f.head.data(), f.head.size()) && !memcmp(&b[soff + f.big_size - f.tail.size()], f.tail.data(), f.tail.size()); // sparse large-file scenario: edges only
        else same = !memcmp(&b[soff], f.pixels.data(), f.pixels.size());
        if (!same) { snprintf(m, sizeof m, "pixels-differ|strip of directory %zu does not return frame %zu's pixel bytes", i, i); return m; }
        ranges.push_back({ soff, soff + slen }); what.push_back("strip");
        if (desc->type != 2) { snprintf(m, sizeof m, "description-not-ascii|directory %zu", i); return m; }
        std::string text;
        if (desc->count <= 8) text.assign((const char*)&b[desc->value_field_off], desc->count);
        else {
            if (desc->value + desc->count > b.size()) { snprintf(m, sizeof m, "offset-outside-file|description of directory %zu [%llu,+%llu) leaves the file", i, (unsigned long long)desc->value, (unsigned long long)desc->count); return m; }
            text.assign((const char*)&b[desc->value], desc->count);
            ranges.push_back({ desc->value, desc->value + desc->count }); what.push_back("description");
        }
        if (text.empty() || text.back() != '\0') { snprintf(m, sizeof m, "description-not-terminated|directory %zu", i); return m; }
        text.pop_back();
        if (text.find('\0') != std::string::npos) { snprintf(m, sizeof m, "description-has-embedded-nul|directory %zu", i); return m; }
        bool ok = false;
        auto j = json_parse(text, ok);
        if (!ok) { snprintf(m, sizeof m, "description-not-json|directory %zu: %.120s", i, text.c_str()); return m; }
        auto num = [&](const JV* v, uint64_t want, const char* name) -> bool { if (!v || v->t != JV::NUM || strtoull(v->numtext.c_str(), 0, 10) != want) { snprintf(m, sizeof m, "description-field-wrong|directory %zu: %s is %s, the frame has %llu", i, name, v ? v->numtext.c_str() : "missing", (unsigned long long)want); return false; } return true; };
        if (!num(jget(j.get(), "frame_id"), f.spec.id, "frame_id")) return m;
        if (!num(jget(j.get(), "hardware_frame_id"), f.hw, "hardware_frame_id")) return m;
        const JV* ts = jget(j.get(), "timestamps");
        if (!num(jget(ts, "runtime"), f.ts_rt, "timestamps.runtime")) return m;
        if (!num(jget(ts, "hardware"), f.ts_hw, "timestamps.hardware")) return m;
        if (meta_in_first && i == 0 && !user_meta.empty()) {
            bool ok2 = false; auto um = json_parse(user_meta, ok2);
            const JV* got = jget(j.get(), "metadata");
            if (!got || !ok2 || !jeq(got, um.get())) { snprintf(m, sizeof m, "metadata-missing-or-wrong|first directory does not carry the user's metadata %s: %.160s", user_meta.c_str(), text.c_str()); return m; }
        }
        if (meta_in_first && (i > 0 || user_meta.empty()) && jget(j.get(), "metadata")) {
            snprintf(m, sizeof m, "unexpected-metadata|directory %zu carries metadata although %s: %.160s", i, i ? "only the first frame should" : "none was configured for this acquisition", text.c_str()); return m;
        }
    }
    // no structure overlaps another
    std::vector<size_t> idx(ranges.size());
    for (size_t i = 0; i < idx.size(); ++i) idx[i] = i;
    std::sort(idx.begin(), idx.end(), [&](size_t a, size_t c) { return ranges[a] < ranges[c]; });
    for (size_t i = 1; i < idx.size(); ++i)
        if (ranges[idx[i]].first < ranges[idx[i - 1]].second) {
            snprintf(m, sizeof m, "structures-overlap|%s [%llu,%llu) overlaps %s [%llu,%llu)", what[idx[i - 1]], (unsigned long long)ranges[idx[i - 1]].first, (unsigned long long)ranges[idx[i - 1]].second,
                     what[idx[i]], (unsigned long long)ranges[idx[i]].first, (unsigned long long)ranges[idx[i]].second);
            return m;
        }
    return "";
}

// ---------------------------------------------------------------- runs
static const uint32_t SHAPES[4][2] = { { 1, 1 }, { 3, 2 }, { 5, 1 }, { 33, 3 } };
// metadata whose CONTENT could be mistaken for something else on its way into the description (format directives, escapes, brackets)
static const char* META_CONTENT[] = { "{\"zoom\":\"100%\"}", "{\"f\":\"%s%s%s%s%s%s%s%s\"}", "{\"f\":\"%d %x %5000s\"}", "{\"p\":\"100%%\"}", "{\"q\":\"a\\\"b\\\\c\"}",
                                      "{\"nested\":{\"a\":[1,2,{\"b\":\"%\"}]}}", "{\"%s\":\"%s\"}", "{\"t\":\"tab\\there\"}", "{\"n\":\"%n%n%n%n\"}" };
static const int N_META_CONTENT = (int)(sizeof META_CONTENT / sizeof *META_CONTENT);
static std::string desc_meta(int ml) { return ml < 0 ? "{}" : ml >= 1000 ? std::string(META_CONTENT[(ml - 1000) % N_META_CONTENT]) : "{\"k\":\"" + std::string((size_t)ml, 'x') + "\"}"; }
static const char* METAS[3] = { "", "{}", "{\"a\":1,\"b\":{\"c\":\"d\"}}" };
static const double SCALES[3][2] = { { 1, 1 }, { 0.5, 2 }, { 0, 0 } };
struct Cyc { int n, group, meta, scale, uri; };
struct Spec { int kind, shape, type, ncyc; Cyc c[2]; int short_at = -1, short_kind = 0; /* one short/zero write at this pwrite index */ int mix = 0; /* frame i has shape (shape + i) mod 4: frames of different sizes within one packet */ int intruder = -1; /* >= 0: after this many appends of cycle 0 a second device of the same kind is set to the same target and started (stop, close) */ };
static std::string spec_str(const Spec& s)
{
    char b[200]; snprintf(b, sizeof b, "kind=%d,shape=%d,type=%d,cycles=%d", s.kind, s.shape, s.type, s.ncyc); std::string o = b;
    for (int i = 0; i < s.ncyc; ++i) { snprintf(b, sizeof b, ";n=%d,group=%d,meta=%d,scale=%d,uri=%d", s.c[i].n, s.c[i].group, s.c[i].meta, s.c[i].scale, s.c[i].uri); o += b; }
    if (s.short_at >= 0) { snprintf(b, sizeof b, ";short=%d,%d", s.short_at, s.short_kind); o += b; }
    if (s.mix) o += ";mix=1";
    if (s.intruder >= 0) o += ";intruder=" + std::to_string(s.intruder);
    return o;
}
static bool parse_spec(const std::string& t, Spec& s)
{
    memset(&s, 0, sizeof s);
    if (sscanf(t.c_str(), "kind=%d,shape=%d,type=%d,cycles=%d", &s.kind, &s.shape, &s.type, &s.ncyc) != 4) return false;
    size_t p = 0;
    for (int i = 0; i < s.ncyc; ++i) { p = t.find(';', p); if (p == std::string::npos) return false; ++p; if (sscanf(t.c_str() + p, "n=%d,group=%d,meta=%d,scale=%d,uri=%d", &s.c[i].n, &s.c[i].group, &s.c[i].meta, &s.c[i].scale, &s.c[i].uri) != 5) return false; }
    s.short_at = -1; s.short_kind = 0;
    size_t q = t.find(";short="); if (q != std::string::npos) sscanf(t.c_str() + q, ";short=%d,%d", &s.short_at, &s.short_kind);
    s.mix = t.find(";mix=1") != std::string::npos;
    s.intruder = -1; { size_t q2 = t.find(";intruder="); if (q2 != std::string::npos) s.intruder = atoi(t.c_str() + q2 + 10); }
    return true;
}

static unsigned long long g_refused, g_parsed, g_after_failure, g_intrusions;
static int g_last_writes;
static std::string execute(const Spec& s)
{
    ENV = Env();
    if (s.short_at >= 0) { ENV.write_plan.assign(s.short_at + 1, W_FULL); ENV.write_plan[s.short_at] = s.short_kind; }
    struct Storage* dev = dev_open(s.kind);
    if (!dev) return "open-failed|storage_open returned NULL";
    std::string verdict;
    for (int ci = 0; ci < s.ncyc && verdict.empty(); ++ci) {
        const Cyc& c = s.c[ci];
        std::string path = g_scratch + "/c" + std::to_string(ci) + (s.kind == BasicDevice_Storage_Tiff ? ".tif" : ".dir");
        h_rm(path);
        std::string uri = c.uri ? "file://" + path : path;
        std::string meta = METAS[c.meta];
        struct StorageProperties props; memset(&props, 0, sizeof props);
        struct PixelScale ps = { SCALES[c.scale][0], SCALES[c.scale][1] };
        storage_properties_init(&props, 0, uri.c_str(), uri.size() + 1, meta.empty() ? nullptr : meta.c_str(), meta.empty() ? 0 : meta.size() + 1, ps, 0);
        enum DeviceStatusCode rc;
        DEV(rc = storage_set(dev, &props));
        storage_properties_destroy(&props);
        if (rc != Device_Ok && ENV.failed_writes) break;
        if (rc != Device_Ok) {
            // tiff-json insists on metadata of at least "{}": a refused configuration writes no file and is not judged
            if (s.kind == BasicDevice_Storage_SideBySideTiffJson && meta.empty()) { ++g_refused; break; }
            verdict = "set-failed|storage_set refused a valid configuration"; break;
        }
        DEV(rc = storage_start(dev));
        if (rc != Device_Ok && ENV.failed_writes) break; // the injected write error hit start: nothing to judge here (C16 judges how it is reported)
        if (rc != Device_Ok) { verdict = "start-failed|storage_start failed"; break; }
        std::vector<Expect> frames;
        std::vector<uint8_t> packet;
        bool failed_append = false; int ok_frames = 0, pk = 0, pk_frames = 0;
        int nappends = 0;
        auto intrude = [&]() {
            // whatever becomes of the second device's start, the first device's file still holds the first device's frames
            struct Storage* other = dev_open(s.kind);
            if (!other) return;
            struct StorageProperties p2; memset(&p2, 0, sizeof p2);
            struct PixelScale ps2 = { 1, 1 };
            // (same metadata as the first device: tiff-json writes metadata.json into the shared directory before it opens data.tif)
            storage_properties_init(&p2, 0, uri.c_str(), uri.size() + 1, meta.empty() ? nullptr : meta.c_str(), meta.empty() ? 0 : meta.size() + 1, ps2, 0);
            DEV(storage_set(other, &p2));
            storage_properties_destroy(&p2);
            DEV(storage_start(other));
            DEV(storage_stop(other));
            DEV(storage_close(other));
            ++g_intrusions;
        };
        if (ci == 0 && s.intruder == 0) intrude();
        for (int i = 0; i < c.n; ++i) {
            const int sh = s.mix ? (s.shape + i) % 4 : s.shape;
            Expect e; e.spec = { SHAPES[sh][0], SHAPES[sh][1], s.type, (uint64_t)i };
            std::vector<uint8_t> f = make_frame(e.spec, ci + 1);
            const struct VideoFrame* v = (const struct VideoFrame*)f.data();
            size_t img = (size_t)e.spec.w * e.spec.h * type_bytes(e.spec.type);
            e.pixels.assign(v->data, v->data + img); e.hw = v->hardware_frame_id; e.ts_hw = v->timestamps.hardware; e.ts_rt = v->timestamps.acq_thread;
            frames.push_back(e);
            packet.insert(packet.end(), f.begin(), f.end()); ++pk_frames;
            if (i == c.n - 1 || (c.group >> i & 1)) {
                std::vector<uint64_t> al((packet.size() + 7) / 8); memcpy(al.data(), packet.data(), packet.size());
                int failed_before = ENV.failed_writes;
                DEV(rc = storage_append(dev, (const struct VideoFrame*)al.data(), (const struct VideoFrame*)((uint8_t*)al.data() + packet.size())));
                if (ENV.failed_writes > failed_before) {
                    // the injected write error hit this append: the frames of the earlier, successful appends were appended; of this
                    // packet the ones written before the failing one may or may not count
                    failed_append = true; ok_frames = (int)frames.size() - pk_frames; pk = pk_frames;
                    break;
                }
                if (rc != Device_Ok) { verdict = "append-failed|storage_append failed without any injected fault"; break; }
                packet.clear(); pk_frames = 0;
                if (ci == 0 && s.intruder == ++nappends) intrude();
            }
        }
        int failed_in_appends = ENV.failed_writes;
        DEV(storage_stop(dev));
        if (!verdict.empty()) break;
        if (ENV.failed_writes && !failed_append) { h_rm(path); break; }             // the error hit start or stop itself: the file cannot be finalised, nothing to judge
        if (ENV.failed_writes > failed_in_appends) { h_rm(path); break; }           // (persistent plans) finalisation failed as well
        if (failed_append && ok_frames < 1) { h_rm(path); break; }                   // no frame was appended: the property speaks about N >= 1
        std::vector<uint8_t> bytes;
        std::string tif = s.kind == BasicDevice_Storage_Tiff ? path : path + "/data.tif";
        if (!h_read_file(tif, bytes)) { verdict = "file-missing|" + tif + " does not exist after stop"; break; }
        ++g_parsed;
        std::string r;
        if (!failed_append) r = check_tiff(View{ bytes.data(), bytes.size() }, frames, meta, s.kind == BasicDevice_Storage_Tiff);
        else {
            // one append failed on a write error and the device was then stopped: the N >= 1 frames appended before it must still
            // round-trip (the file holds them, plus possibly the frames of the failing packet that were written completely)
            ++g_after_failure;
            for (int m = ok_frames; m <= ok_frames + pk - 1; ++m) {
                std::vector<Expect> pre(frames.begin(), frames.begin() + m);
                std::string rm = check_tiff(View{ bytes.data(), bytes.size() }, pre, meta, s.kind == BasicDevice_Storage_Tiff);
                if (rm.empty()) { r.clear(); break; }
                if (m == ok_frames) r = "after-failed-append:" + rm + " [" + std::to_string(ok_frames) + " frames had been appended successfully before the append that met the write error]";
            }
        }
        if (!r.empty()) { verdict = r + " [cycle " + std::to_string(ci) + "]"; break; }
        if (s.kind == BasicDevice_Storage_SideBySideTiffJson && !meta.empty()) {
            std::vector<uint8_t> mj;
            if (!h_read_file(path + "/metadata.json", mj)) { verdict = "metadata-json-missing|metadata.json was not written"; break; }
            if (std::string(mj.begin(), mj.end()) != meta) { verdict = "metadata-json-differs|metadata.json is not byte-identical to the configured metadata"; break; }
        }
        h_rm(path);
    }
    DEV(storage_close(dev));
    g_last_writes = ENV.nwrites;
    return verdict;
}

#include <sys/mman.h>
// N frames of 32768x32768 u8 (1 GiB each): offsets beyond 4 GiB.  One lazily zeroed buffer is reused for every frame (only
// its edges carry a pattern), large writes are sparse, and the file is inspected through a read-only mapping.
static std::string large_file(int kind, int nframes)
{
    ENV = Env();
    g_sparse_writes = true;
    const uint32_t W = 32768, H = 32768;
    const size_t img = (size_t)W * H, nb = sizeof(struct VideoFrame) + img;
    uint8_t* buf = (uint8_t*)mmap(nullptr, nb, PROT_READ | PROT_WRITE, MAP_PRIVATE | MAP_ANONYMOUS | MAP_NORESERVE, -1, 0);
    if (buf == MAP_FAILED) return "";
    std::string verdict;
    struct Storage* dev = dev_open(kind);
    std::string path = g_scratch + "/large" + (kind == BasicDevice_Storage_Tiff ? ".tif" : ".dir");
    h_rm(path);
    struct StorageProperties props; memset(&props, 0, sizeof props);
    struct PixelScale ps = { 1, 1 };
    const char meta[] = "{}";
    storage_properties_init(&props, 0, path.c_str(), path.size() + 1, meta, sizeof meta, ps, 0);
    enum DeviceStatusCode rc;
    DEV(rc = storage_set(dev, &props));
    storage_properties_destroy(&props);
    DEV(rc = storage_start(dev));
    std::vector<Expect> frames;
    for (int i = 0; i < nframes && rc == Device_Ok; ++i) {
        struct VideoFrame* v = (struct VideoFrame*)buf;
        memset(v, 0, sizeof *v);
        v->bytes_of_frame = nb;
        v->shape.dims.channels = 1; v->shape.dims.width = W; v->shape.dims.height = H; v->shape.dims.planes = 1;
        v->shape.strides.channels = 1; v->shape.strides.width = 1; v->shape.strides.height = W; v->shape.strides.planes = (int64_t)img;
        v->shape.type = SampleType_u8; v->frame_id = (uint64_t)i; v->hardware_frame_id = 500 + i; v->timestamps.hardware = 7 + i; v->timestamps.acq_thread = 9 + i;
        const size_t e = 64 * 1024;
        for (size_t k = 0; k < e; ++k) { v->data[k] = (uint8_t)(1 + 11 * i + 3 * k); v->data[img - e + k] = (uint8_t)(5 + 13 * i + 7 * k); }
        Expect ex; ex.spec = { W, H, SampleType_u8, (uint64_t)i }; ex.hw = v->hardware_frame_id; ex.ts_hw = v->timestamps.hardware; ex.ts_rt = v->timestamps.acq_thread;
        frames.push_back(ex);
        DEV(rc = storage_append(dev, v, (const struct VideoFrame*)(buf + nb)));
    }
    DEV(storage_stop(dev));
    DEV(storage_close(dev));
    g_sparse_writes = false;
    if (rc != Device_Ok) verdict = "append-failed|a 1 GiB frame was refused";
    else {
        std::string tif = kind == BasicDevice_Storage_Tiff ? path : path + "/data.tif";
        int fd = h_open(tif.c_str(), O_RDONLY);
        struct stat st; memset(&st, 0, sizeof st);
        if (fd < 0 || fstat(fd, &st)) verdict = "file-missing|large file missing";
        else {
            const uint8_t* m = (const uint8_t*)mmap(nullptr, (size_t)st.st_size, PROT_READ, MAP_PRIVATE, fd, 0);
            for (int i = 0; i < nframes; ++i) {
                const size_t e = 64 * 1024;
                frames[i].big_size = img; frames[i].head.resize(e); frames[i].tail.resize(e);
                for (size_t k = 0; k < e; ++k) { frames[i].head[k] = (uint8_t)(1 + 11 * i + 3 * k); frames[i].tail[k] = (uint8_t)(5 + 13 * i + 7 * k); }
            }
            verdict = check_tiff(View{ m, (size_t)st.st_size }, frames, "{}", kind == BasicDevice_Storage_Tiff);
            if (!verdict.empty()) verdict += " [file of " + std::to_string(st.st_size >> 20) + " MiB, " + std::to_string(nframes) + " frames of 1 GiB]";
            munmap((void*)m, (size_t)st.st_size);
        }
        if (fd >= 0) h_close(fd);
    }
    h_rm(path);
    munmap(buf, nb);
    return verdict;
}

// One 1x1 frame whose ids and time stamps have a chosen number of decimal digits, with a chosen metadata string: sweeps the LENGTH of
// the per-frame description text through every value in a range (formatting buffers, string sections, alignment of what follows).
static uint64_t pow10u(int d) { uint64_t v = 1; for (int i = 1; i < d; ++i) v *= 10; return v; }
static std::string description_run(int kind, int d_id, int d_hw, int d_ts, int d_rt, const std::string& meta)
{
    ENV = Env();
    struct Storage* dev = dev_open(kind);
    if (!dev) return "open-failed|storage_open returned NULL";
    std::string path = g_scratch + "/desc" + (kind == BasicDevice_Storage_Tiff ? ".tif" : ".dir");
    h_rm(path);
    struct StorageProperties props; memset(&props, 0, sizeof props);
    struct PixelScale ps = { 1, 1 };
    storage_properties_init(&props, 0, path.c_str(), path.size() + 1, meta.empty() ? nullptr : meta.c_str(), meta.empty() ? 0 : meta.size() + 1, ps, 0);
    enum DeviceStatusCode rc;
    DEV(rc = storage_set(dev, &props));
    storage_properties_destroy(&props);
    std::string verdict;
    if (rc != Device_Ok) { DEV(storage_close(dev)); return kind == BasicDevice_Storage_SideBySideTiffJson && meta.empty() ? "" : "set-failed|storage_set refused a valid configuration"; }
    DEV(rc = storage_start(dev));
    if (rc != Device_Ok) { DEV(storage_close(dev)); return "start-failed|storage_start failed"; }
    std::vector<Expect> frames;
    for (int i = 0; i < 2; ++i) {
        FrameSpec fs = { 1, 1, SampleType_u8, pow10u(d_id) + (uint64_t)i };
        std::vector<uint8_t> f = make_frame(fs, 3);
        struct VideoFrame* v = (struct VideoFrame*)f.data();
        v->hardware_frame_id = pow10u(d_hw) + (uint64_t)i; v->timestamps.hardware = pow10u(d_ts) + (uint64_t)i; v->timestamps.acq_thread = pow10u(d_rt) + (uint64_t)i;
        Expect e; e.spec = fs; e.pixels.assign(v->data, v->data + 1); e.hw = v->hardware_frame_id; e.ts_hw = v->timestamps.hardware; e.ts_rt = v->timestamps.acq_thread;
        frames.push_back(e);
        std::vector<uint64_t> al((f.size() + 7) / 8); memcpy(al.data(), f.data(), f.size());
        DEV(rc = storage_append(dev, (const struct VideoFrame*)al.data(), (const struct VideoFrame*)((uint8_t*)al.data() + f.size())));
        if (rc != Device_Ok) { verdict = "append-failed|storage_append failed without any injected fault"; break; }
    }
    DEV(storage_stop(dev));
    if (verdict.empty()) {
        std::vector<uint8_t> bytes;
        std::string tif = kind == BasicDevice_Storage_Tiff ? path : path + "/data.tif";
        if (!h_read_file(tif, bytes)) verdict = "file-missing|" + tif + " does not exist after stop";
        else { ++g_parsed; verdict = check_tiff(View{ bytes.data(), bytes.size() }, frames, meta, kind == BasicDevice_Storage_Tiff); }
    }
    DEV(storage_close(dev));
    h_rm(path);
    return verdict;
}

int main(int argc, char** argv)
{
    int cycles = 1; std::string out, replay;
    for (int i = 1; i < argc; ++i) {
        std::string a = argv[i];
        if (a == "--cycles") cycles = atoi(argv[++i]);
        else if (a == "--out") out = argv[++i];
        else if (a == "--replay") replay = argv[++i];
        else { fprintf(stderr, "unknown arg %s\n", a.c_str()); return 2; }
    }
    char tag[32]; snprintf(tag, sizeof tag, "c15-%d", cycles);
    harness_init(tag);
    auto t0 = std::chrono::steady_clock::now();
    if (!replay.empty() && !replay.compare(0, 5, "desc=")) {
        int k = 0, d0 = 1, d1 = 1, d2 = 1, d3 = 1, ml = -1;
        sscanf(replay.c_str(), "desc=%d,%d,%d,%d,%d,%d", &k, &d0, &d1, &d2, &d3, &ml);
        std::string meta = desc_meta(ml);
        std::string v = description_run(k, d0, d1, d2, d3, meta);
        h_rmtree(g_scratch);
        if (v.empty()) { printf("RESULT ok\n"); return 0; }
        printf("RESULT VIOLATION C15:%s\n", v.c_str());
        return 1;
    }
    if (!replay.empty()) {
        Spec s; if (!parse_spec(replay, s)) { fprintf(stderr, "bad spec\n"); return 2; }
        std::string v = execute(s);
        h_rmtree(g_scratch);
        if (v.empty()) { printf("RESULT ok\n"); return 0; }
        printf("RESULT VIOLATION C15:%s\n", v.c_str());
        return 1;
    }
    struct V { std::string clause, detail, spec; unsigned long long count; };
    std::map<std::string, V> viols;
    unsigned long long files = 0, runs = 0, short_runs = 0;
    std::vector<std::string> samples;
    for (int kind : { (int)BasicDevice_Storage_Tiff, (int)BasicDevice_Storage_SideBySideTiffJson })
        for (int shape = 0; shape < 4; ++shape)
            for (int type = 0; type < 8; ++type)
                for (int n = 1; n <= 3; ++n)
                    for (int g = 0; g < (1 << (n - 1)); ++g)
                        for (int meta = 0; meta < 3; ++meta)
                            for (int scale = 0; scale < 3; ++scale)
                                for (int uri = 0; uri < 2; ++uri) {
                                    Spec s; memset(&s, 0, sizeof s); s.short_at = -1; s.intruder = -1;
                                    s.kind = kind; s.shape = shape; s.type = type; s.ncyc = 1; s.c[0] = { n, g, meta, scale, uri };
                                    std::vector<Spec> todo;
                                    if (cycles == 1) todo.push_back(s);
                                    else {
                                        if (scale != 0 || uri != 0 || (shape != 1 && shape != 3)) continue; // second-cycle variants on a sub-product
                                        for (int n2 = 1; n2 <= 2; ++n2) for (int meta2 = 0; meta2 < 3; ++meta2) { Spec t = s; t.ncyc = 2; t.c[1] = { n2, 0, meta2, 0, 0 }; todo.push_back(t); }
                                    }
                                    // a second device of the same kind pointed at the target being written, after every append
                                    if (cycles == 1 && meta == 2 && scale == 0 && uri == 0 && (shape == 1 || shape == 3) && (type == 0 || type == 4))
                                        for (int k = 0; k <= n; ++k) { Spec t = s; t.intruder = k; todo.push_back(t); }
                                    // frames of different shapes (and sizes) within one acquisition and within one packet
                                    if (cycles == 1 && n >= 2 && meta == 2 && scale == 0 && uri == 0) { Spec t = s; t.mix = 1; todo.push_back(t); }
                                    // one short / 1-byte / zero write at every pwrite index, on a sub-product (the OS may complete any write partially)
                                    if (cycles == 1 && meta == 2 && scale == 0 && uri == 0 && (shape == 1 || shape == 3) && (type == 0 || type == 4) && n == 2) {
                                        Spec base = s; execute(base); int W = g_last_writes;
                                        for (int at = 0; at < W + 2; ++at) for (int k = W_SHORT_BY_1; k <= W_ZERO; ++k) { Spec t = s; t.short_at = at; t.short_kind = k; todo.push_back(t); ++short_runs; }
                                    }
                                    // one failing write (EIO) at every pwrite index: the frames appended before the failing append stay readable
                                    if (cycles == 1 && meta == 2 && scale == 0 && uri == 0 && (shape == 1 || shape == 3) && (type == 0 || type == 4) && n == 3) {
                                        Spec base = s; execute(base); int W = g_last_writes;
                                        for (int at = 0; at < W; ++at) { Spec t = s; t.short_at = at; t.short_kind = W_EIO; todo.push_back(t); ++short_runs; }
                                    }
                                    for (Spec& t : todo) {
                                        std::string v = execute(t); ++runs; files += t.ncyc;
                                        if (samples.size() < 8 && runs % 997 == 11) samples.push_back(spec_str(t));
                                        if (v.empty()) continue;
                                        std::string clause = v.substr(0, v.find('|')), detail = v.substr(v.find('|') + 1);
                                        std::string key = std::string(kind == BasicDevice_Storage_Tiff ? "tiff:" : "tiff-json:") + clause;
                                        auto& e = viols[key];
                                        if (!e.count) { e.clause = key; e.detail = detail; e.spec = spec_str(t); }
                                        ++e.count;
                                    }
                                }
    // description lengths: total digits of the four numbers 4..80 (each length once), and metadata strings of 0..200 characters
    unsigned long long desc_runs = 0;
    if (cycles == 1)
        for (int kind : { (int)BasicDevice_Storage_Tiff, (int)BasicDevice_Storage_SideBySideTiffJson }) {
            auto note2 = [&](const std::string& v, const std::string& spec) {
                ++desc_runs; ++runs;
                if (v.empty()) return;
                std::string clause = v.substr(0, v.find('|')), detail = v.substr(v.find('|') + 1);
                std::string key = std::string(kind == BasicDevice_Storage_Tiff ? "tiff:" : "tiff-json:") + "description-sweep:" + clause;
                auto& e = viols[key];
                if (!e.count) { e.clause = key; e.detail = detail; e.spec = spec; }
                ++e.count;
            };
            for (int S = 4; S <= 80; ++S) {
                int d[4]; for (int k = 0; k < 4; ++k) d[k] = S / 4 + (k < S % 4 ? 1 : 0);
                note2(description_run(kind, d[0], d[1], d[2], d[3], "{}"), "desc=" + std::to_string(kind) + "," + std::to_string(d[0]) + "," + std::to_string(d[1]) + "," + std::to_string(d[2]) + "," + std::to_string(d[3]) + ",-1");
            }
            for (int c = 0; c < N_META_CONTENT; ++c) {
                // in a forked child: a writer that takes the metadata for a format string may well crash, and that is a verdict, not the end of the sweep
                int pfd[2]; if (pipe(pfd)) continue;
                pid_t pid = fork();
                if (pid == 0) { h_close(pfd[0]); std::string v = description_run(kind, 1, 4, 5, 5, desc_meta(1000 + c)); if (!v.empty() && write(pfd[1], v.data(), v.size()) < 0) {} _exit(0); }
                h_close(pfd[1]);
                std::string v; char buf[512]; for (;;) { ssize_t r = read(pfd[0], buf, sizeof buf); if (r <= 0) break; v.append(buf, (size_t)r); }
                h_close(pfd[0]);
                int st = 0; waitpid(pid, &st, 0);
                if (WIFSIGNALED(st)) v = std::string("writer-crashed|signal ") + std::to_string(WTERMSIG(st)) + " while writing a frame with the metadata " + desc_meta(1000 + c);
                note2(v, "desc=" + std::to_string(kind) + ",1,4,5,5," + std::to_string(1000 + c));
            }
            for (int L = 0; L <= 200; ++L) {
                std::string meta = "{\"k\":\"" + std::string((size_t)L, 'x') + "\"}";
                note2(description_run(kind, 1, 4, 5, 5, meta), "desc=" + std::to_string(kind) + ",1,4,5,5," + std::to_string(L));
            }
        }
    unsigned long long large = 0;
    if (cycles == 1)
        for (int kind : { (int)BasicDevice_Storage_Tiff, (int)BasicDevice_Storage_SideBySideTiffJson }) {
            std::string v = large_file(kind, 5); ++large; ++runs;
            if (v.empty()) continue;
            std::string clause = v.substr(0, v.find('|')), detail = v.substr(v.find('|') + 1);
            std::string key = std::string(kind == BasicDevice_Storage_Tiff ? "tiff:" : "tiff-json:") + clause;
            auto& e = viols[key];
            if (!e.count) { e.clause = key; e.detail = detail; e.spec = "large:kind=" + std::to_string(kind) + ",frames=5x1GiB"; }
            ++e.count;
        }
    h_rmtree(g_scratch);
    double wall = std::chrono::duration<double>(std::chrono::steady_clock::now() - t0).count();
    FILE* f = out.empty() ? stdout : fopen(out.c_str(), "w");
    fprintf(f, "{\"description_length_runs\":%llu,\"runs_with_a_second_device_on_the_same_target\":%llu,\"files_judged_after_a_failed_append\":%llu,\"runs_with_a_short_or_zero_write\":%llu,\"large_files_over_4GiB\":%llu,\"cycles\":%d,\"runs\":%llu,\"configurations_refused_by_the_device\":%llu,\"files_parsed\":%llu,\"exhaustive\":true,\"wall_s\":%.3f,\"samples\":[", desc_runs, g_intrusions, g_after_failure, short_runs, large, cycles, runs, g_refused, g_parsed, wall);
    for (size_t i = 0; i < samples.size(); ++i) fprintf(f, "%s\"%s\"", i ? "," : "", json_esc(samples[i]).c_str());
    fprintf(f, "],\"violations\":[");
    bool first = true;
    for (auto& kv : viols) { fprintf(f, "%s{\"clause\":\"%s\",\"detail\":\"%s\",\"spec\":\"%s\",\"count\":%llu}", first ? "" : ",", json_esc(kv.second.clause).c_str(), json_esc(kv.second.detail).c_str(), json_esc(kv.second.spec).c_str(), kv.second.count); first = false; }
    fprintf(f, "]}\n");
    if (f != stdout) fclose(f);
    return viols.empty() ? 0 : 1;
}
