// E3 / C17: the real simulated cameras (simulated.camera.c with bin2.avx2.c or bin2.plain.c,
// imfill.pattern.cpp, popcount.cpp, pcg) under AddressSanitizer, driven through the real HAL camera.c:
// configuration x sequence enumeration, one forked child per sequence (an overflow may corrupt the heap).
//   c17_simcam --tier quick|thorough [--shard i/n] [--out f.json] [--replay "cfgA;cfgB"]
// a configuration is kind,binning,type,w,h,ox,oy
#include <cstdio>
#include <cstdlib>
#include <cstring>
#include <chrono>
#include <map>
#include <string>
#include <vector>
#include <signal.h>
#include <fcntl.h>
#include <cstdarg>
#include <sys/mman.h>
#include <sys/wait.h>
#include <unistd.h>

extern "C" {
#include "device/hal/camera.h"
#include "device/kit/camera.h"
#include "device/kit/driver.h"
#include "device/props/camera.h"
#include "device/props/components.h"
#include "identifiers.h"
#include "logger.h"
struct Camera* simcam_make_camera(enum BasicDeviceKind kind);
enum DeviceStatusCode simcam_close_camera(struct Camera* camera_);
struct Driver* device_manager_get_driver(const struct DeviceManager*, const struct DeviceIdentifier*) { return nullptr; }
enum DeviceStatusCode driver_open_device(struct Driver*, uint8_t, struct Device**) { return Device_Err; }
void __asan_poison_memory_region(void const volatile*, size_t);
void __asan_unpoison_memory_region(void const volatile*, size_t);
}
static void quiet(int, const char*, int, const char*, const char*) {}

struct Cfg { int kind, binning, type; uint32_t w, h, ox, oy; int fa = -1; /* >= 0: the fa-th buffer allocation of this set call fails (out of memory) */ };
static std::string cfg_str(const Cfg& c) { char b[112]; int n = snprintf(b, sizeof b, "%d,%d,%d,%u,%u,%u,%u", c.kind, c.binning, c.type, c.w, c.h, c.ox, c.oy); if (c.fa >= 0) snprintf(b + n, sizeof b - n, ",fa=%d", c.fa); return b; }
static bool parse_cfg(const char* s, Cfg& c) { c.fa = -1; const char* f = strstr(s, ",fa="); if (f) c.fa = atoi(f + 4); return sscanf(s, "%d,%d,%d,%u,%u,%u,%u", &c.kind, &c.binning, &c.type, &c.w, &c.h, &c.ox, &c.oy) == 7; }
// allocation failures: the camera's realloc calls go through here (link-time --wrap); the real one is AddressSanitizer's
extern "C" void* __real_realloc(void*, size_t);
static int g_fail_realloc_at = -1, g_reallocs;
extern "C" void* __wrap_realloc(void* p, size_t n) { if (g_fail_realloc_at >= 0 && g_reallocs++ == g_fail_realloc_at) return nullptr; return __real_realloc(p, n); }

struct Shared { char verdict[16]; char clause[64]; char detail[400]; int asan_errors; };
static Shared* SH;
static void fail(const char* clause, const char* fmt, ...)
{
    if (strcmp(SH->verdict, "run")) return;
    va_list ap; va_start(ap, fmt);
    snprintf(SH->clause, sizeof SH->clause, "%s", clause);
    vsnprintf(SH->detail, sizeof SH->detail, fmt, ap);
    va_end(ap);
    strcpy(SH->verdict, "viol");
}
extern "C" void __asan_on_error() { if (SH) { SH->asan_errors++; fail("memory-error-reported-by-asan", "AddressSanitizer reported an invalid access inside the simulated camera (see the replay for the report)"); } }
extern "C" const char* __asan_default_options() { return "halt_on_error=0:detect_leaks=0:print_summary=0:log_path=/dev/null:allocator_may_return_null=1"; }

static size_t tbytes(int t) { switch (t) { case SampleType_u8: case SampleType_i8: return 1; case SampleType_f32: return 4; default: return 2; } }
static uint32_t clampu(uint32_t v, uint32_t lo, uint32_t hi) { return v < lo ? lo : v > hi ? hi : v; }

static struct Driver DRV; // close goes through device.driver->close
static enum DeviceStatusCode drv_close(struct Driver*, struct Device* d) { return simcam_close_camera((struct Camera*)d); }

static void apply_and_check(struct Camera* cam, const Cfg& c, int step)
{
    struct CameraProperties p; memset(&p, 0, sizeof p);
    p.exposure_time_us = 1500; p.binning = (uint8_t)c.binning; p.pixel_type = (enum SampleType)c.type;
    p.shape.x = c.w; p.shape.y = c.h; p.offset.x = c.ox; p.offset.y = c.oy;
    if (c.fa >= 0) {
        // this set call runs out of memory at its fa-th buffer allocation: it may fail, but nothing may be left pointing at released memory
        g_reallocs = 0; g_fail_realloc_at = c.fa;
        camera_set(cam, &p);
        g_fail_realloc_at = -1;
        return;
    }
    if (camera_set(cam, &p) != Device_Ok) { fail("set-rejected", "step %d: camera_set rejected configuration %s", step, cfg_str(c).c_str()); return; }
    uint32_t maxdim = 8192u / (uint32_t)c.binning;
    uint32_t W = clampu(c.w, 1, maxdim), H = clampu(c.h, 1, maxdim);
    struct ImageShape s; memset(&s, 0, sizeof s);
    if (camera_get_image_shape(cam, &s) != Device_Ok) { fail("get-shape-failed", "step %d", step); return; }
    if (s.dims.channels != 1 || s.dims.width != W || s.dims.height != H || s.dims.planes != 1)
        { fail("reported-dims-wrong", "step %d cfg %s: shape reports %ux%ux%ux%u, the request clamped to [1,%u] is 1x%ux%ux1", step, cfg_str(c).c_str(), s.dims.channels, s.dims.width, s.dims.height, s.dims.planes, maxdim, W, H); return; }
    if (s.strides.channels != 1 || s.strides.width != 1 || s.strides.height != (int64_t)W || s.strides.planes != (int64_t)W * H)
        { fail("reported-strides-wrong", "step %d cfg %s: strides %lld,%lld,%lld,%lld do not match dims", step, cfg_str(c).c_str(), (long long)s.strides.channels, (long long)s.strides.width, (long long)s.strides.height, (long long)s.strides.planes); return; }
    if ((int)s.type != c.type) { fail("reported-type-wrong", "step %d cfg %s: shape reports type %d", step, cfg_str(c).c_str(), (int)s.type); return; }
    struct CameraProperties g; memset(&g, 0, sizeof g);
    camera_get(cam, &g);
    if (g.shape.x != W || g.shape.y != H || g.binning != c.binning || (int)g.pixel_type != c.type || g.exposure_time_us != p.exposure_time_us || g.offset.x != c.ox || g.offset.y != c.oy)
        { fail("readback-differs-from-effect", "step %d cfg %s: get returns shape %ux%u binning %d type %d offset %u,%u", step, cfg_str(c).c_str(), g.shape.x, g.shape.y, g.binning, (int)g.pixel_type, g.offset.x, g.offset.y); return; }
}

static void frames(struct Camera* cam, const Cfg& c, int step, int n)
{
    uint32_t maxdim = 8192u / (uint32_t)c.binning;
    size_t need = (size_t)clampu(c.w, 1, maxdim) * clampu(c.h, 1, maxdim) * tbytes(c.type);
    if (camera_start(cam) != Device_Ok) { fail("start-failed", "step %d", step); return; }
    // a buffer that is one byte too small must be refused without being written
    if (need > 1) {
        uint8_t* small = (uint8_t*)malloc(need - 1);
        size_t nb = need - 1; struct ImageInfo info; memset(&info, 0, sizeof info);
        __asan_poison_memory_region(small, need - 1);
        enum DeviceStatusCode rc = camera_get_frame(cam, small, &nb, &info);
        __asan_unpoison_memory_region(small, need - 1);
        free(small);
        if (rc == Device_Ok) { fail("short-buffer-accepted", "step %d cfg %s: get_frame accepted a buffer of %zu bytes for an image of %zu", step, cfg_str(c).c_str(), need - 1, need); camera_stop(cam); return; }
        // the HAL stopped the camera after the error: start again
        struct CameraProperties p; camera_get(cam, &p); camera_set(cam, &p);
        if (camera_start(cam) != Device_Ok) { fail("restart-failed", "step %d", step); return; }
    }
    uint64_t last = 0;
    std::vector<uint8_t> first;
    for (int i = 0; i < n; ++i) {
        uint8_t* buf = (uint8_t*)malloc(need); // exactly the image size: ASan sees one byte too many
        // "fills exactly that many image bytes": the buffer is pre-filled with 0xA5 for the first and 0x5A for the second frame;
        // a byte that still holds the respective sentinel after BOTH calls was written by neither
        memset(buf, i == 0 ? 0xA5 : 0x5A, need);
        size_t nb = need; struct ImageInfo info; memset(&info, 0, sizeof info);
        enum DeviceStatusCode rc = camera_get_frame(cam, buf, &nb, &info);
        if (rc == Device_Ok && i == 0) first.assign(buf, buf + need);
        if (rc == Device_Ok && i == 1 && first.size() == need) {
            size_t untouched = 0, firstpos = 0;
            for (size_t k = 0; k < need; ++k) if (first[k] == 0xA5 && buf[k] == 0x5A) { if (!untouched) firstpos = k; ++untouched; }
            size_t tolerated = need / 64 + 4; // a random image may hit both sentinels by chance (1/65536 per byte)
            if (untouched > tolerated) fail("frame-not-filled", "step %d cfg %s: %zu of the %zu image bytes of the caller's buffer were written by neither of two frame calls (first at offset %zu)", step, cfg_str(c).c_str(), untouched, need, firstpos);
        }
        free(buf);
        if (rc != Device_Ok) { fail("get-frame-failed", "step %d cfg %s frame %d", step, cfg_str(c).c_str(), i); break; }
        if (i && info.hardware_frame_id <= last) { fail("frame-id-not-increasing", "step %d: %llu after %llu", step, (unsigned long long)info.hardware_frame_id, (unsigned long long)last); break; }
        last = info.hardware_frame_id;
        if (info.shape.dims.width * info.shape.dims.height * tbytes((int)info.shape.type) != need) { fail("frame-shape-differs-from-reported", "step %d cfg %s", step, cfg_str(c).c_str()); break; }
    }
    camera_stop(cam);
}

static void child(const std::vector<Cfg>& seq)
{
    logger_set_reporter(quiet);
    DRV.close = drv_close;
    struct Camera* cam = simcam_make_camera((enum BasicDeviceKind)seq[0].kind);
    if (!cam) { fail("make-camera-failed", "simcam_make_camera returned NULL"); return; }
    cam->device.driver = &DRV;
    for (size_t i = 0; i < seq.size() && !strcmp(SH->verdict, "run"); ++i) {
        apply_and_check(cam, seq[i], (int)i);
        if (strcmp(SH->verdict, "run")) break;
        if (seq[i].fa >= 0) continue; // after a set call that failed the camera awaits configuration: the next step configures it again
        frames(cam, seq[i], (int)i, 2);
    }
    camera_close(cam);
}

static void crash_h(int sig) { if (SH) fail("crash", "signal %d inside the simulated camera", sig); _exit(3); }
static Shared run_forked_limit(const std::vector<Cfg>& seq, bool verbose, unsigned limit_s);
// a sequence that gets no verdict within 60 s of wall-clock time (the cameras sleep real exposures; the machine may be busy) is run
// again alone with ten times the limit before it is called a hang
static Shared run_forked(const std::vector<Cfg>& seq, bool verbose)
{
    Shared o = run_forked_limit(seq, verbose, 60);
    if (!strcmp(o.verdict, "viol") && !strcmp(o.clause, "hang")) o = run_forked_limit(seq, verbose, 600);
    return o;
}
static Shared run_forked_limit(const std::vector<Cfg>& seq, bool verbose, unsigned limit_s)
{
    memset(SH, 0, sizeof *SH); strcpy(SH->verdict, "run");
    fflush(stdout);
    pid_t p = fork();
    if (p == 0) {
        struct sigaction sa; memset(&sa, 0, sizeof sa); sa.sa_handler = crash_h;
        sigaction(SIGSEGV, &sa, nullptr); sigaction(SIGBUS, &sa, nullptr); sigaction(SIGABRT, &sa, nullptr); sigaction(SIGFPE, &sa, nullptr); sigaction(SIGILL, &sa, nullptr);
        if (!verbose) { int fd = open("/dev/null", 1); dup2(fd, 2); }
        alarm(limit_s);
        child(seq);
        if (!strcmp(SH->verdict, "run")) strcpy(SH->verdict, "ok");
        _exit(0);
    }
    int st = 0; waitpid(p, &st, 0);
    Shared o = *SH;
    if (!strcmp(o.verdict, "run")) { strcpy(o.verdict, "viol"); if (WIFSIGNALED(st) && WTERMSIG(st) == SIGALRM) { strcpy(o.clause, "hang"); snprintf(o.detail, sizeof o.detail, "no verdict within %u s", limit_s); } else { strcpy(o.clause, "crash"); snprintf(o.detail, sizeof o.detail, "child ended with wait status 0x%x", st); } }
    return o;
}

int main(int argc, char** argv)
{
    std::string tier = "quick", out, replay; int shard = 0, nshard = 1;
    for (int i = 1; i < argc; ++i) {
        std::string a = argv[i];
        if (a == "--tier") tier = argv[++i];
        else if (a == "--shard") sscanf(argv[++i], "%d/%d", &shard, &nshard);
        else if (a == "--out") out = argv[++i];
        else if (a == "--replay") replay = argv[++i];
        else { fprintf(stderr, "unknown arg %s\n", a.c_str()); return 2; }
    }
    SH = (Shared*)mmap(nullptr, 4096, PROT_READ | PROT_WRITE, MAP_SHARED | MAP_ANONYMOUS, -1, 0);
    auto t0 = std::chrono::steady_clock::now();
    if (!replay.empty()) {
        std::vector<Cfg> seq; size_t p = 0;
        while (p < replay.size()) { size_t q = replay.find(';', p); if (q == std::string::npos) q = replay.size(); Cfg c; if (!parse_cfg(replay.substr(p, q - p).c_str(), c)) { fprintf(stderr, "bad cfg\n"); return 2; } seq.push_back(c); p = q + 1; }
        setenv("ASAN_OPTIONS", "halt_on_error=0:detect_leaks=0", 1);
        Shared o = run_forked(seq, true);
        printf("RESULT %s %s %s (asan reports: %d)\n", o.verdict, o.clause, o.detail, o.asan_errors);
        return strcmp(o.verdict, "ok") ? 1 : 0;
    }
    // configurations
    const bool thorough = tier == "thorough";
    std::vector<uint32_t> dims = { 1, 2, 3, 31, 32, 33, 63, 64, 65 };
    std::vector<uint32_t> bigdims = { 1023, 1024, 1025, 8191, 8192, 8193 };
    std::vector<Cfg> cfgs;
    for (int kind = 0; kind < 3; ++kind)
        for (int b : { 1, 2, 4, 8 })
            for (int type = 0; type < 8; ++type)
                for (uint32_t w : dims) for (uint32_t h : dims) {
                    if (!thorough && !((w == h) || (w == 1 && h == 65) || (w == 33 && h == 2) || (w == 64 && h == 3) || (w == 3 && h == 64))) continue;
                    for (uint32_t off : { 0u, 1u })  {
                        if (off && !(w == 33 || w == 1)) continue;
                        cfgs.push_back({ kind, b, type, w, h, off, off ? 4096u : 0u });
                    }
                }
    // large shapes: clamp boundaries, u8 and u16 only, every binning
    for (int kind = 0; kind < 3; ++kind) for (int b : { 1, 2, 4, 8 }) for (int type : { 0, 1 }) for (uint32_t w : bigdims) {
        if (!thorough && !(w == 1025 || w == 8193 || w == 8191)) continue;
        cfgs.push_back({ kind, b, type, w, 2, 0, 0 }); cfgs.push_back({ kind, b, type, 3, w, 8191, 0 });
        if (type == 0 && (w == 1025 || (thorough && w == 8193))) cfgs.push_back({ kind, b, type, w, w, 0, 0 });
    }
    // sequences: every configuration alone, then pairs (re-configuration and restart across size/binning/type changes)
    std::vector<std::vector<Cfg>> seqs;
    for (auto& c : cfgs) seqs.push_back({ c });
    std::vector<Cfg> partners = { { 0, 1, 0, 64, 64, 0, 0 }, { 0, 8, 1, 3, 3, 0, 0 }, { 0, 2, 4, 33, 2, 0, 0 }, { 0, 1, 0, 1, 1, 0, 0 }, { 0, 4, 3, 65, 65, 1, 1 } };
    for (size_t i = 0; i < cfgs.size(); ++i) {
        if (!thorough && i % 7) continue;
        for (auto p : partners) { p.kind = cfgs[i].kind; if (cfgs[i].w > 2000 && cfgs[i].h > 2000) continue; seqs.push_back({ cfgs[i], p }); seqs.push_back({ p, cfgs[i] }); }
    }
    // a re-configuration that runs out of memory at its first or second buffer allocation, then the same configuration again, frames, close
    {
        size_t n0 = seqs.size();
        for (size_t i = 0; i < n0; ++i) {
            if (seqs[i].size() != 2 || (!thorough && i % 5)) continue;
            for (int fa = 0; fa < 2; ++fa) { Cfg bad = seqs[i][1]; bad.fa = fa; seqs.push_back({ seqs[i][0], bad, seqs[i][1] }); }
        }
    }
    struct V { std::string clause, detail, spec; unsigned long long count; };
    std::map<std::string, V> viols;
    unsigned long long runs = 0, asan = 0;
    std::vector<std::string> samples;
    for (size_t i = 0; i < seqs.size(); ++i) {
        if ((int)(i % nshard) != shard) continue;
        Shared o = run_forked(seqs[i], false); ++runs; asan += o.asan_errors;
        std::string spec; for (size_t k = 0; k < seqs[i].size(); ++k) spec += (k ? ";" : "") + cfg_str(seqs[i][k]);
        if (samples.size() < 6 && runs % 211 == 5) samples.push_back(spec);
        if (!strcmp(o.verdict, "ok")) continue;
        auto& e = viols[o.clause];
        if (!e.count) { e.clause = o.clause; e.detail = o.detail; e.spec = spec; }
        ++e.count;
    }
    double wall = std::chrono::duration<double>(std::chrono::steady_clock::now() - t0).count();
    FILE* f = out.empty() ? stdout : fopen(out.c_str(), "w");
    auto esc = [](const std::string& s) { std::string o; for (char c : s) { if (c == '"' || c == '\\') o += '\\'; o += c; } return o; };
    const char* variant = strstr(argv[0], "plain") ? "bin2.plain" : "bin2.avx2";
    fprintf(f, "{\"variant\":\"%s\",\"configurations\":%zu,\"sequences\":%zu,\"runs\":%llu,\"asan_reports\":%llu,\"exhaustive\":true,\"wall_s\":%.3f,\"samples\":[", variant, cfgs.size(), seqs.size(), runs, asan, wall);
    for (size_t i = 0; i < samples.size(); ++i) fprintf(f, "%s\"%s\"", i ? "," : "", esc(samples[i]).c_str());
    fprintf(f, "],\"violations\":[");
    bool first = true;
    for (auto& kv : viols) { fprintf(f, "%s{\"clause\":\"%s\",\"detail\":\"%s\",\"spec\":\"%s\",\"count\":%llu}", first ? "" : ",", esc(kv.second.clause).c_str(), esc(kv.second.detail).c_str(), esc(kv.second.spec).c_str(), kv.second.count); first = false; }
    fprintf(f, "]}\n");
    if (f != stdout) fclose(f);
    return viols.empty() ? 0 : 1;
}
