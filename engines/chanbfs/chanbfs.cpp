// E1 chanbfs — explicit-state breadth-first search of the ring channel, executed on the REAL
// acquire-video-runtime/src/runtime/channel.c (compiled unchanged and linked with platform
// stubs).  Every channel operation holds the channel lock from entry to exit, so at operation
// granularity all interleavings of one writer and N readers are exactly all operation
// sequences; this engine enumerates those (C01, C02) and runs the parked-writer closure for
// liveness (C03 part A).  Sub-operation interleavings are E2's job (c03b).
//
// usage: chanbfs --cap N --readers R --prop C01|C02|C03 [--no-accept] [--kset full|ends]
//                [--max-states M] [--out file.json] [--replay "op,op,..."] [--samples K]
//
// exit: 0 no violation, 1 violation(s) (written to --out), 2 usage/internal error
#include <cstdio>
#include <cstdlib>
#include <cstring>
#include <csetjmp>
#include <cstdint>
#include <string>
#include <vector>
#include <map>
#include <set>
#include <algorithm>
#include <chrono>

extern "C" {
#include "runtime/channel.h"
}

// ---------------------------------------------------------------- platform stubs
static jmp_buf g_block_jmp;
static int g_in_op = 0;
static unsigned g_notify = 0;
static unsigned g_lock_depth = 0;
extern "C" {
void lock_init(struct lock* l) { memset(l, 0, sizeof *l); }
void lock_acquire(struct lock*) { ++g_lock_depth; }
int try_lock_acquire(struct lock*) { ++g_lock_depth; return 1; }
void lock_release(struct lock*) { --g_lock_depth; }
void condition_variable_init(struct condition_variable* c) { memset(c, 0, sizeof *c); }
void condition_variable_wait(struct condition_variable*, struct lock*) {
    if (!g_in_op) abort();
    longjmp(g_block_jmp, 1); // "would block": the sequence search treats it as not enabled
}
void condition_variable_notify_all(struct condition_variable*) { ++g_notify; }
void* memory_alloc(size_t n, enum AllocatorHint) { return malloc(n); }
void memory_free(void* p) { free(p); }
// the rest of what channel.c could reasonably use from the logger and the platform layer (it uses none of it today): a change that
// adds a log line or a time stamp must not break this build
void aq_logger(int, const char*, int, const char*, const char*, ...) {}
void logger_set_reporter(void (*)(int, const char*, int, const char*, const char*)) {}
void* memory_realloc(void* p, size_t n, enum AllocatorHint) { return realloc(p, n); }
void clock_init(struct clock* c) { memset(c, 0, sizeof *c); }
uint64_t clock_tic(struct clock*) { return 0; }
int64_t clock_toc(struct clock*) { return 0; }
double clock_toc_ms(struct clock*) { return 0; }
int8_t clock_cmp(struct clock*, uint64_t) { return 0; }
int8_t clock_cmp_now(struct clock*) { return 0; }
void clock_shift_ms(struct clock*, double) {}
void clock_sleep_ms(struct clock*, float) {}
}

// ---------------------------------------------------------------- configuration
static int CAP = 4, NR = 1;
static bool USE_ACCEPT = true;
static bool KSET_FULL = true;
#ifdef VERIF_NO_CHANNEL_REWIND
static const bool HAVE_REWIND = false;
extern "C" void channel_rewind(struct channel*) {}
#else
static const bool HAVE_REWIND = true; // channel.h declares channel_rewind (added by the fix for stale frames seen by a late-joining monitor)
#endif
static std::string PROP = "C01";
static size_t MAX_STATES = 60u * 1000 * 1000;
static int NSAMPLES = 6;

constexpr int MAXCAP = 16, MAXR = 8;

// ---------------------------------------------------------------- state
struct State {
    // implementation part (the real structs)
    struct channel ch;
    struct channel_reader rd[MAXR];
    // reference model, all relative to "now" (W = bytes committed so far):
    uint8_t lag[MAXCAP];   // W - stream index of the byte stored in the cell (>=1), 0 = nothing a reader may see
    uint8_t bnd[MAXCAP];   // cell holds the first byte of a committed write
    uint8_t wpos, wn;      // pending write region [wpos,wpos+wn), wn==0: none
    uint8_t joined[MAXR];
    uint8_t rlag[MAXR];    // W - next stream index owed to reader r (0 = drained)
    uint8_t mpos[MAXR], mlen[MAXR]; // currently mapped slice
    uint8_t accepting;     // what the harness last told the channel
};

static uint8_t* g_data; // the ring memory (content is never read by channel.c; the model's lag[] is the content)

static void state_init(State& s) {
    memset(&s, 0, sizeof s);
    channel_new(&s.ch, CAP);
    free(s.ch.data);
    s.ch.data = g_data;
    s.accepting = 1;
}

// canonicalise in place: cycles relative to the minimum live cycle, dead reader bookmarks zeroed,
// dead cells (lag > capacity: no reader can legitimately be owed them) scribbled.
static void canon(State& s) {
    size_t m = s.ch.cycle;
    for (unsigned i = 0; i < s.ch.holds.n && i < MAXR; ++i) m = std::min(m, s.ch.holds.cycles[i]);
    for (int r = 0; r < NR; ++r)
        if (s.rd[r].state == ChannelState_Mapped) m = std::min(m, s.rd[r].cycle);
    s.ch.cycle -= m;
    for (unsigned i = 0; i < s.ch.holds.n && i < MAXR; ++i) s.ch.holds.cycles[i] -= m;
    for (int r = 0; r < NR; ++r) {
        if (s.rd[r].state == ChannelState_Mapped) s.rd[r].cycle -= m;
        else { s.rd[r].pos = 0; s.rd[r].cycle = 0; } // never read while unmapped (overwritten by map)
    }
    for (int c = 0; c < CAP; ++c)
        if (s.lag[c] > CAP) { s.lag[c] = 0; s.bnd[c] = 0; }
}

static int KEYLEN = 0;
static bool g_key_overflow = false;
static inline uint8_t b8(size_t v) { if (v > 254) { g_key_overflow = true; return 255; } return (uint8_t)v; }

static void encode(const State& s, uint8_t* k) {
    int o = 0;
    k[o++] = b8(s.ch.head); k[o++] = b8(s.ch.high); k[o++] = b8(s.ch.cycle); k[o++] = b8(s.ch.mapped);
    k[o++] = s.ch.is_accepting_writes; k[o++] = b8(s.ch.holds.n); k[o++] = b8(s.ch.capacity);
    for (int r = 0; r < NR; ++r) {
        k[o++] = b8(s.ch.holds.pos[r]); k[o++] = b8(s.ch.holds.cycles[r]);
        k[o++] = b8(s.rd[r].id); k[o++] = b8(s.rd[r].pos); k[o++] = b8(s.rd[r].cycle);
        k[o++] = b8(s.rd[r].status); k[o++] = b8(s.rd[r].state);
        k[o++] = s.joined[r]; k[o++] = s.rlag[r]; k[o++] = s.mpos[r]; k[o++] = s.mlen[r];
    }
    for (int c = 0; c < CAP; ++c) { k[o++] = s.lag[c]; k[o++] = s.bnd[c]; }
    k[o++] = s.wpos; k[o++] = s.wn; k[o++] = s.accepting;
    KEYLEN = o;
}
static void decode(const uint8_t* k, State& s) {
    memset(&s, 0, sizeof s);
    int o = 0;
    s.ch.data = g_data;
    s.ch.head = k[o++]; s.ch.high = k[o++]; s.ch.cycle = k[o++]; s.ch.mapped = k[o++];
    s.ch.is_accepting_writes = k[o++]; s.ch.holds.n = k[o++]; s.ch.capacity = k[o++];
    for (int r = 0; r < NR; ++r) {
        s.ch.holds.pos[r] = k[o++]; s.ch.holds.cycles[r] = k[o++];
        s.rd[r].id = k[o++]; s.rd[r].pos = k[o++]; s.rd[r].cycle = k[o++];
        s.rd[r].status = (enum ChannelStatus)k[o++]; s.rd[r].state = (enum ChannelState)k[o++];
        s.joined[r] = k[o++]; s.rlag[r] = k[o++]; s.mpos[r] = k[o++]; s.mlen[r] = k[o++];
    }
    for (int c = 0; c < CAP; ++c) { s.lag[c] = k[o++]; s.bnd[c] = k[o++]; }
    s.wpos = k[o++]; s.wn = k[o++]; s.accepting = k[o++];
}

// ---------------------------------------------------------------- operations
enum OpKind : uint8_t { OP_WMAP = 1, OP_COMMIT, OP_ABORT, OP_RMAP, OP_RUNMAP, OP_ACCEPT, OP_REWIND };
struct Op { uint8_t kind, a, b; };
static std::string op_str(Op o) {
    char buf[64];
    switch (o.kind) {
        case OP_WMAP: snprintf(buf, sizeof buf, "wmap(%d)", o.a); break;
        case OP_COMMIT: snprintf(buf, sizeof buf, "commit"); break;
        case OP_ABORT: snprintf(buf, sizeof buf, "abort"); break;
        case OP_RMAP: snprintf(buf, sizeof buf, "rmap(r%d)", o.a); break;
        case OP_RUNMAP: snprintf(buf, sizeof buf, "runmap(r%d,%d)", o.a, o.b); break;
        case OP_ACCEPT: snprintf(buf, sizeof buf, "accept(%d)", o.a); break;
        case OP_REWIND: snprintf(buf, sizeof buf, "rewind"); break;
        default: snprintf(buf, sizeof buf, "?");
    }
    return buf;
}
static bool parse_op(const std::string& t, Op& o) {
    int a = 0, b = 0;
    if (sscanf(t.c_str(), "wmap(%d)", &a) == 1) { o = { OP_WMAP, (uint8_t)a, 0 }; return true; }
    if (t == "commit") { o = { OP_COMMIT, 0, 0 }; return true; }
    if (t == "abort") { o = { OP_ABORT, 0, 0 }; return true; }
    if (t == "rewind") { o = { OP_REWIND, 0, 0 }; return true; }
    if (sscanf(t.c_str(), "rmap(r%d)", &a) == 1) { o = { OP_RMAP, (uint8_t)a, 0 }; return true; }
    if (sscanf(t.c_str(), "runmap(r%d,%d)", &a, &b) == 2) { o = { OP_RUNMAP, (uint8_t)a, (uint8_t)b }; return true; }
    if (sscanf(t.c_str(), "accept(%d)", &a) == 1) { o = { OP_ACCEPT, (uint8_t)a, 0 }; return true; }
    return false;
}

enum Result { R_OK = 0, R_BLOCK, R_DISABLED, R_VIOL };
struct Outcome { Result r; std::string prop, clause, detail; unsigned notified; bool soft = false; };
// soft: the oracle failed but the model state stays consistent, so the search continues past it

static Outcome viol(const char* prop, const char* clause, const std::string& d) { return { R_VIOL, prop, clause, d, 0 }; }

// Applies one real operation to `s` (in place) and evaluates the oracles of C01/C02.
static Outcome apply(State& s, Op op) {
    char d[256];
    g_notify = 0; g_lock_depth = 0;
    Outcome ok = { R_OK, "", "", "", 0 };
    switch (op.kind) {
    case OP_WMAP: {
        if (s.wn) return { R_DISABLED };
        int n = op.a;
        void* volatile p = 0;
        volatile int blocked = 0;
        g_in_op = 1;
        if (setjmp(g_block_jmp) == 0) p = channel_write_map(&s.ch, (size_t)n);
        else blocked = 1;
        g_in_op = 0;
        if (blocked) {
            if (n >= CAP) return viol("C02", "oversize-request-blocks", "wmap(n>=capacity) went to sleep");
            if (!s.ch.holds.n) return viol("C03", "blocks-without-readers", "writer went to sleep although no reader exists");
            return { R_BLOCK };
        }
        if (g_lock_depth) return viol("C03", "lock-leak", "operation returned holding the channel lock");
        if (!p) {
            if (n < CAP && s.accepting)
                return viol("C02", "null-while-accepting", "wmap(n<capacity) returned no region while writes are accepted");
            ok.notified = g_notify; return ok;
        }
        if (n >= CAP) return viol("C02", "oversize-request-granted", "wmap(n>=capacity) returned a region");
        long off = (uint8_t*)p - g_data;
        if (off < 0 || off + n > CAP) {
            snprintf(d, sizeof d, "write region [%ld,%ld) leaves the buffer [0,%d)", off, off + n, CAP);
            return viol("C02", "write-region-outside-buffer", d);
        }
        for (int c = (int)off; c < off + n; ++c) {
            for (int r = 0; r < NR; ++r) {
                if (!s.joined[r]) continue;
                if (s.mlen[r] && c >= s.mpos[r] && c < s.mpos[r] + s.mlen[r]) {
                    snprintf(d, sizeof d, "write region [%ld,%ld) overlaps cell %d mapped by reader %d", off, off + n, c, r);
                    return viol("C02", "write-overlaps-mapped", d);
                }
                if (s.lag[c] >= 1 && s.lag[c] <= s.rlag[r]) {
                    snprintf(d, sizeof d, "write region [%ld,%ld) overlaps cell %d holding a byte reader %d has not consumed", off, off + n, c, r);
                    return viol("C02", "write-overlaps-unconsumed", d);
                }
            }
        }
        for (int c = (int)off; c < off + n; ++c) { s.lag[c] = 0; s.bnd[c] = 0; } // the writer scribbles at once
        s.wpos = (uint8_t)off; s.wn = (uint8_t)n;
        ok.notified = g_notify; return ok;
    }
    case OP_COMMIT:
    case OP_ABORT: {
        if (!s.wn) return { R_DISABLED };
        size_t head0 = s.ch.head;
        if (op.kind == OP_ABORT) channel_abort_write(&s.ch);
        channel_write_unmap(&s.ch);
        if (g_lock_depth) return viol("C03", "lock-leak", "operation returned holding the channel lock");
        bool committed;
        if (op.kind == OP_ABORT) committed = false;
        else if (s.accepting) committed = true;
        else committed = (s.ch.head != head0) && s.ch.head == (size_t)s.wpos + s.wn; // refused: either is fine, follow the code
        if (committed) {
            int n = s.wn;
            for (int c = 0; c < CAP; ++c) if (s.lag[c]) s.lag[c] = (uint8_t)std::min(255, s.lag[c] + n);
            for (int r = 0; r < NR; ++r) if (s.joined[r]) s.rlag[r] = (uint8_t)std::min(255, s.rlag[r] + n);
            for (int i = 0; i < n; ++i) { s.lag[s.wpos + i] = (uint8_t)(n - i); s.bnd[s.wpos + i] = (i == 0); }
        }
        s.wn = 0; s.wpos = 0;
        ok.notified = g_notify; return ok;
    }
    case OP_RMAP: {
        int r = op.a;
        if (r >= NR || s.mlen[r]) return { R_DISABLED };
        if (!s.joined[r] && r > 0 && !s.joined[r - 1]) return { R_DISABLED }; // readers join in index order (symmetry)
        if (s.rd[r].state == ChannelState_Mapped) return { R_DISABLED };
        struct slice sl = channel_read_map(&s.ch, &s.rd[r]);
        if (g_lock_depth) return viol("C03", "lock-leak", "operation returned holding the channel lock");
        long len = sl.end - sl.beg;
        if (s.rd[r].status != Channel_Ok) {
            snprintf(d, sizeof d, "reader %d status became %d through legal use", r, (int)s.rd[r].status);
            return viol("C01", "reader-status-error", d);
        }
        if (len < 0) return viol("C01", "negative-slice", "read slice has end < beg");
        if (len == 0) {
            if (!s.joined[r]) { s.joined[r] = 1; s.rlag[r] = 0; }
            else if (s.rlag[r] != 0) {
                snprintf(d, sizeof d, "reader %d got an empty region while %d committed bytes are still owed to it", r, s.rlag[r]);
                Outcome v = viol("C01", "empty-but-not-drained", d);
                v.soft = true; v.notified = g_notify;
                return v;
            }
            ok.notified = g_notify; return ok;
        }
        long off = sl.beg - g_data;
        if (off < 0 || off + len > CAP) {
            snprintf(d, sizeof d, "read slice [%ld,%ld) leaves the buffer", off, off + len);
            return viol("C02", "read-slice-outside-buffer", d);
        }
        if (!s.joined[r]) {
            if (!s.bnd[off] || s.lag[off] < 1) {
                snprintf(d, sizeof d, "joining reader %d starts at cell %ld which is not the first byte of a committed write", r, off);
                return viol("C01", "join-not-at-write-boundary", d);
            }
            s.joined[r] = 1; s.rlag[r] = s.lag[off];
        }
        for (long i = 0; i < len; ++i) {
            int c = (int)(off + i);
            if (s.wn && c >= s.wpos && c < s.wpos + s.wn) {
                snprintf(d, sizeof d, "reader %d maps cell %d inside the writer's uncommitted region", r, c);
                return viol("C02", "read-slice-overlaps-pending-write", d);
            }
            int want = (int)s.rlag[r] - (int)i;
            if (want < 1) {
                snprintf(d, sizeof d, "reader %d slice of %ld bytes extends past the committed data (owed %d)", r, len, s.rlag[r]);
                return viol("C01", "read-beyond-committed", d);
            }
            if (s.lag[c] != want) {
                snprintf(d, sizeof d, "reader %d byte %ld (cell %d): expected stream byte W-%d, cell holds %s%d", r, i, c, want,
                         s.lag[c] ? "W-" : "uncommitted/", s.lag[c]);
                return viol("C01", "wrong-byte", d);
            }
        }
        s.mpos[r] = (uint8_t)off; s.mlen[r] = (uint8_t)len;
        ok.notified = g_notify; return ok;
    }
    case OP_RUNMAP: {
        int r = op.a;
        if (r >= NR || !s.joined[r]) return { R_DISABLED };
        int k = op.b;
        if (!s.mlen[r] && k != 0) return { R_DISABLED }; // unmap of an unmapped reader: only the sink's unmap(0)
        channel_read_unmap(&s.ch, &s.rd[r], (size_t)k);
        if (g_lock_depth) return viol("C03", "lock-leak", "operation returned holding the channel lock");
        int consumed = std::min(k, (int)s.mlen[r]);
        s.rlag[r] -= consumed;
        s.mlen[r] = 0; s.mpos[r] = 0;
        ok.notified = g_notify; return ok;
    }
    case OP_REWIND: {
        // channel_rewind (called by the sink at the start of an acquisition, writer idle): must be invisible to every
        // joined reader; the oracle is simply that all later reads still agree with the committed stream
        if (!HAVE_REWIND || s.wn) return { R_DISABLED };
        channel_rewind(&s.ch);
        if (g_lock_depth) return viol("C03", "lock-leak", "operation returned holding the channel lock");
        ok.notified = g_notify; return ok;
    }
    case OP_ACCEPT: {
        if (!USE_ACCEPT || op.a == s.accepting) return { R_DISABLED };
        channel_accept_writes(&s.ch, op.a);
        s.accepting = op.a;
        ok.notified = g_notify; return ok;
    }
    }
    return { R_DISABLED };
}

static void enumerate_ops(const State& s, std::vector<Op>& out) {
    out.clear();
    if (!s.wn) { for (int n = 1; n <= CAP; ++n) out.push_back({ OP_WMAP, (uint8_t)n, 0 }); }
    else { out.push_back({ OP_COMMIT, 0, 0 }); out.push_back({ OP_ABORT, 0, 0 }); }
    for (int r = 0; r < NR; ++r) {
        if (!s.mlen[r]) {
            out.push_back({ OP_RMAP, (uint8_t)r, 0 });
            if (s.joined[r]) out.push_back({ OP_RUNMAP, (uint8_t)r, 0 });
        } else {
            int L = s.mlen[r];
            std::set<int> ks;
            if (KSET_FULL) { ks = { 0, 1, L - 1, L, L + 1 }; } else { ks = { 0, L }; }
            for (int k : ks) if (k >= 0) out.push_back({ OP_RUNMAP, (uint8_t)r, (uint8_t)k });
        }
    }
    if (USE_ACCEPT) out.push_back({ OP_ACCEPT, (uint8_t)!s.accepting, 0 });
    if (HAVE_REWIND && !s.wn) out.push_back({ OP_REWIND, 0, 0 });
}

// ---------------------------------------------------------------- state store
struct Store {
    std::vector<uint8_t> keys;     // n * KEYLEN
    std::vector<uint32_t> parent;  // index of predecessor
    std::vector<Op> via;
    std::vector<uint32_t> table;   // open addressing, 0 = empty, else index+1
    size_t n = 0, mask = 0;
    void init(size_t cap_pow2) { table.assign(cap_pow2, 0); mask = cap_pow2 - 1; }
    static uint64_t h(const uint8_t* k, int len) {
        uint64_t x = 1469598103934665603ull;
        for (int i = 0; i < len; ++i) { x ^= k[i]; x *= 1099511628211ull; }
        x ^= x >> 29; x *= 0xbf58476d1ce4e5b9ull; x ^= x >> 32;
        return x;
    }
    void grow() {
        std::vector<uint32_t> t(table.size() * 2, 0);
        size_t m = t.size() - 1;
        for (size_t i = 0; i < n; ++i) {
            size_t p = h(&keys[i * KEYLEN], KEYLEN) & m;
            while (t[p]) p = (p + 1) & m;
            t[p] = (uint32_t)i + 1;
        }
        table.swap(t); mask = m;
    }
    // returns index, sets fresh
    uint32_t insert(const uint8_t* k, uint32_t par, Op op, bool& fresh) {
        if ((n + 1) * 10 > table.size() * 7) grow();
        size_t p = h(k, KEYLEN) & mask;
        while (table[p]) {
            uint32_t i = table[p] - 1;
            if (!memcmp(&keys[(size_t)i * KEYLEN], k, KEYLEN)) { fresh = false; return i; }
            p = (p + 1) & mask;
        }
        keys.insert(keys.end(), k, k + KEYLEN);
        parent.push_back(par); via.push_back(op);
        table[p] = (uint32_t)n + 1;
        fresh = true;
        return (uint32_t)n++;
    }
};

static Store g_store;
static FILE* g_dump;

static std::vector<Op> path_to(uint32_t i) {
    std::vector<Op> p;
    while (i != 0) { p.push_back(g_store.via[i]); i = g_store.parent[i]; }
    std::reverse(p.begin(), p.end());
    return p;
}
static std::string path_str(const std::vector<Op>& p) {
    std::string s;
    for (size_t i = 0; i < p.size(); ++i) { if (i) s += ","; s += op_str(p[i]); }
    return s;
}

// ---------------------------------------------------------------- C03 part A: parked-writer closure
struct C03Stats {
    uint64_t parked_cases = 0, closure_states = 0, closure_transitions = 0, wakeups = 0, refusals = 0;
    uint64_t drain_checks = 0; int max_drain_calls = 0;
} g_c03;

struct Violation { std::string prop, clause, detail, ops; };
static std::vector<Violation> g_viol;
static std::map<std::string, uint64_t> g_viol_count, g_other_count;
static std::set<std::string> g_viol_seen;
static void record(const std::string& prop, const std::string& clause, const std::string& detail, const std::string& ops) {
    std::string fp = prop + ":" + clause;
    ++g_viol_count[fp];
    if (g_viol_seen.count(fp) && g_viol.size() >= 1) {
        // keep the first (shortest, BFS order) witness per clause, count the rest
        return;
    }
    g_viol_seen.insert(fp);
    g_viol.push_back({ prop, clause, detail, ops });
}

static bool would_block(const State& s, int n, bool* null_out = nullptr) {
    State t = s;
    Outcome o = apply(t, { OP_WMAP, (uint8_t)n, 0 });
    if (null_out) *null_out = (o.r == R_OK && !t.wn);
    return o.r == R_BLOCK;
}

// From a state in which wmap(n) blocks: the writer sleeps on the condition variable.  Explore every
// interleaving of reader operations (and the refuse-writes signal).  After an operation that notified,
// the writer wakes and re-evaluates; an operation that did not notify leaves it asleep.  The writer must
// never remain asleep in a state from which no reader operation changes anything although its request
// could now be granted (lost wake-up), nor remain blocked when every reader is drained (no progress).
static void parked_closure(const State& s0, int n, uint32_t idx0) {
    ++g_c03.parked_cases;
    std::vector<State> st; st.push_back(s0);
    std::set<std::string> seen;
    uint8_t kb[512];
    { State c = s0; canon(c); encode(c, kb); seen.insert(std::string((char*)kb, KEYLEN)); }
    std::vector<std::vector<Op>> paths; paths.push_back({});
    std::vector<Op> ops;
    for (size_t qi = 0; qi < st.size(); ++qi) {
        State s = st[qi];
        std::vector<Op> cand;
        for (int r = 0; r < NR; ++r) {
            if (!s.joined[r]) continue;
            if (!s.mlen[r]) cand.push_back({ OP_RMAP, (uint8_t)r, 0 });
            else { int L = s.mlen[r]; std::set<int> ks = { 0, 1, L }; for (int k : ks) cand.push_back({ OP_RUNMAP, (uint8_t)r, (uint8_t)k }); }
        }
        if (USE_ACCEPT && s.accepting) cand.push_back({ OP_ACCEPT, 0, 0 });
        for (Op op : cand) {
            State t = s;
            Outcome o = apply(t, op);
            if (o.r != R_OK && !o.soft) continue; // reader-side violations are C01/C02's business (found by the main search)
            ++g_c03.closure_transitions;
            std::vector<Op> p = paths[qi]; p.push_back(op);
            if (op.kind == OP_ACCEPT) {
                ++g_c03.refusals;
                bool isnull = false;
                bool blk = would_block(t, n, &isnull);
                if (!o.notified) record("C03", "refuse-without-notify", "refusing writes did not notify the sleeping writer",
                                        path_str(path_to(idx0)) + ",[writer sleeps in wmap(" + std::to_string(n) + ")]," + path_str(p));
                else if (blk || !isnull) record("C03", "refused-writer-not-released", "after refuse-writes the woken writer does not return 'no region'",
                                                path_str(path_to(idx0)) + ",[writer sleeps in wmap(" + std::to_string(n) + ")]," + path_str(p));
                continue;
            }
            bool blk = would_block(t, n);
            if (o.notified && !blk) { ++g_c03.wakeups; continue; } // writer woke and proceeds: done
            if (!blk) {
                // the request became grantable but this operation did not notify: the readers may legitimately pause
                // right here for as long as they like (a sink waiting for frames to age), so the writer sleeps on although
                // enough has been consumed
                record("C03", "lost-wakeup", "a reader operation released enough space for the sleeping writer's request without notifying it",
                       path_str(path_to(idx0)) + ",[writer sleeps in wmap(" + std::to_string(n) + ")]," + path_str(p));
                continue;
            }
            State c = t; canon(c); encode(c, kb);
            std::string key((char*)kb, KEYLEN);
            if (seen.insert(key).second) { st.push_back(t); paths.push_back(p); ++g_c03.closure_states; }
        }
        // terminal = every reader unmapped and every rmap returns empty without changing anything
        bool all_idle = true;
        for (int r = 0; r < NR; ++r) if (s.joined[r] && (s.mlen[r] || s.rlag[r])) all_idle = false;
        if (all_idle) {
            // all readers are drained and hold nothing; one more round of maps must not be needed
            State t = s; bool changed = false;
            // "changes nothing" is judged on the canonical form: fields of an unmapped reader that the next map overwrites do not count
            uint8_t k0[512], k1[512];
            { State c = t; canon(c); encode(c, k0); }
            for (int r = 0; r < NR; ++r) if (s.joined[r]) { State u = t; apply(u, { OP_RMAP, (uint8_t)r, 0 }); State c = u; canon(c); encode(c, k1); if (memcmp(k0, k1, KEYLEN)) changed = true; }
            if (!changed) {
                bool blk = would_block(s, n);
                std::string w = path_str(path_to(idx0)) + ",[writer sleeps in wmap(" + std::to_string(n) + ")]," + path_str(paths[qi]);
                if (blk) record("C03", "writer-blocked-with-all-readers-drained", "every reader is drained and idle, yet the request still cannot be granted", w);
                else if (qi != 0) record("C03", "lost-wakeup", "request became grantable but no notification reached the sleeping writer; readers are now idle", w);
            }
        }
    }
}

// ---------------------------------------------------------------- main search
static std::string json_escape(const std::string& s) {
    std::string o;
    for (char c : s) { if (c == '"' || c == '\\') { o += '\\'; o += c; } else if (c == '\n') o += "\\n"; else o += c; }
    return o;
}

int main(int argc, char** argv) {
    std::string out_path, replay, dump_blocked;
    for (int i = 1; i < argc; ++i) {
        std::string a = argv[i];
        auto next = [&]() -> std::string { if (i + 1 >= argc) { fprintf(stderr, "missing value for %s\n", a.c_str()); exit(2); } return argv[++i]; };
        if (a == "--cap") CAP = atoi(next().c_str());
        else if (a == "--readers") NR = atoi(next().c_str());
        else if (a == "--prop") PROP = next();
        else if (a == "--no-accept") USE_ACCEPT = false;
        else if (a == "--kset") KSET_FULL = (next() == "full");
        else if (a == "--max-states") MAX_STATES = strtoull(next().c_str(), 0, 10);
        else if (a == "--out") out_path = next();
        else if (a == "--replay") replay = next();
        else if (a == "--samples") NSAMPLES = atoi(next().c_str());
        else if (a == "--dump-blocked") dump_blocked = next();
        else { fprintf(stderr, "unknown argument %s\n", a.c_str()); return 2; }
    }
    if (CAP < 2 || CAP > MAXCAP || NR < 1 || NR > MAXR) { fprintf(stderr, "bad --cap/--readers\n"); return 2; }
    g_data = (uint8_t*)calloc(1, MAXCAP + 8);
    auto t0 = std::chrono::steady_clock::now();

    State init; state_init(init);
    uint8_t kb[512];
    { State c = init; canon(c); encode(c, kb); }

    if (!replay.empty()) {
        // plain replay of one operation list against the real code, printing every step
        State s = init;
        size_t p = 0; int step = 0; int rc = 0;
        while (p < replay.size()) {
            size_t q = p; int depth = 0;
            while (q < replay.size() && !(replay[q] == ',' && depth == 0)) { if (replay[q] == '(') ++depth; if (replay[q] == ')') --depth; ++q; }
            std::string tok = replay.substr(p, q - p); p = q + 1;
            if (tok.empty() || tok[0] == '[') { printf("      %s\n", tok.c_str()); continue; }
            Op op; if (!parse_op(tok, op)) { fprintf(stderr, "cannot parse op '%s'\n", tok.c_str()); return 2; }
            Outcome o = apply(s, op);
            printf("%3d %-14s -> %s", ++step, tok.c_str(), o.r == R_OK ? "ok" : o.r == R_BLOCK ? "WOULD-BLOCK" : o.r == R_DISABLED ? "not-enabled" : "VIOLATION");
            if (o.r == R_VIOL) { printf(" %s:%s %s", o.prop.c_str(), o.clause.c_str(), o.detail.c_str()); rc = 1; }
            printf("   head=%zu high=%zu cycle=%zu mapped=%zu acc=%d |", s.ch.head, s.ch.high, s.ch.cycle, s.ch.mapped, s.ch.is_accepting_writes);
            for (int r = 0; r < NR; ++r) printf(" r%d[pos=%zu cyc=%zu owed=%d map=%d+%d]", r, s.ch.holds.pos[r], s.ch.holds.cycles[r], s.rlag[r], s.mpos[r], s.mlen[r]);
            printf(" cells:"); for (int c = 0; c < CAP; ++c) printf(" %d%s", s.lag[c], s.bnd[c] ? "^" : "");
            printf("\n");
            if (o.r == R_VIOL) break;
        }
        return rc;
    }

    if (!dump_blocked.empty()) g_dump = fopen(dump_blocked.c_str(), "w");
    g_store.init(1u << 20);
    bool fresh;
    g_store.insert(kb, 0, { 0, 0, 0 }, fresh);
    uint64_t transitions = 0, blocked_ops = 0, wraps = 0, full_hits = 0;
    uint64_t ev_empty_drained = 0, ev_partial = 0, ev_abort = 0, ev_refused_commit = 0, ev_join_nonempty = 0;
    std::vector<Op> ops;
    bool capped = false;
    int max_depth = 0;
    std::vector<uint16_t> depth; depth.push_back(0);
    std::vector<std::string> samples;
    const bool do_c03 = (PROP == "C03");
    const bool want01 = (PROP == "C01"), want02 = (PROP == "C02");

    for (size_t qi = 0; qi < g_store.n; ++qi) {
        State s; decode(&g_store.keys[qi * KEYLEN], s);
        if (do_c03) {
            if (!s.wn) {
                for (int n = 1; n < CAP; ++n)
                    if (would_block(s, n)) {
                        parked_closure(s, n, (uint32_t)qi);
                        if (g_dump) { // one line per blocked case for the thread-level check: n, then the raw struct fields
                            fprintf(g_dump, "%d %d %d %zu %zu %zu %zu %d %u", CAP, NR, n, s.ch.head, s.ch.high, s.ch.cycle, s.ch.mapped, (int)s.ch.is_accepting_writes, s.ch.holds.n);
                            for (int r = 0; r < NR; ++r) fprintf(g_dump, " %zu %zu %u %zu %zu %d %d %d", s.ch.holds.pos[r], s.ch.holds.cycles[r], s.rd[r].id, s.rd[r].pos, s.rd[r].cycle, (int)s.rd[r].status, (int)s.rd[r].state, (int)s.joined[r]);
                            fprintf(g_dump, "\n");
                        }
                    }
            }
            // drain bound
            for (int r = 0; r < NR; ++r) {
                if (!s.joined[r]) continue;
                ++g_c03.drain_checks;
                State t = s; int calls = 0; bool reached = false;
                if (t.mlen[r]) apply(t, { OP_RUNMAP, (uint8_t)r, t.mlen[r] });
                while (calls < 8) {
                    ++calls;
                    struct slice sl = channel_read_map(&t.ch, &t.rd[r]); // raw call: judge only the bound here
                    long len = sl.end - sl.beg;
                    if (len <= 0) { if (t.rlag[r] == 0) { reached = true; break; } continue; }
                    t.rlag[r] = (uint8_t)std::max(0L, (long)t.rlag[r] - len);
                    channel_read_unmap(&t.ch, &t.rd[r], (size_t)len);
                }
                g_c03.max_drain_calls = std::max(g_c03.max_drain_calls, calls);
                if (!reached || calls > 4)
                    record("C03", "reader-does-not-drain-in-bounded-calls",
                           "reader " + std::to_string(r) + " mapping/unmapping everything did not reach 'drained' within 4 map calls (took " + std::to_string(calls) + (reached ? ")" : ", gave up)"),
                           path_str(path_to((uint32_t)qi)));
            }
        }
        enumerate_ops(s, ops);
        for (Op op : ops) {
            State t = s;
            Outcome o = apply(t, op);
            if (o.r == R_DISABLED) continue;
            if (o.r == R_BLOCK) { ++blocked_ops; continue; }
            ++transitions;
            if (o.r == R_VIOL) {
                // "a region handed to a reader lies inside the committed data" is stated by C02 as well as by C01
                bool mine = (o.prop == PROP) || (PROP == "C02" && (o.clause == "read-beyond-committed" || o.clause == "wrong-byte"));
                if (mine) {
                    std::vector<Op> p = path_to((uint32_t)qi); p.push_back(op);
                    record(o.prop, o.clause, o.detail, path_str(p));
                } else ++g_other_count[o.prop + ":" + o.clause];
                if (!o.soft) continue; // the model cannot follow a broken state: do not explore beyond it
            }
            // coverage events
            if (op.kind == OP_WMAP && t.wn && t.ch.cycle != s.ch.cycle) ++wraps;
            if (op.kind == OP_RMAP && !t.mlen[op.a] && s.joined[op.a]) ++ev_empty_drained;
            if (op.kind == OP_RMAP && !s.joined[op.a] && t.mlen[op.a]) ++ev_join_nonempty;
            if (op.kind == OP_RUNMAP && s.mlen[op.a] && op.b > 0 && op.b < s.mlen[op.a]) ++ev_partial;
            if (op.kind == OP_ABORT) ++ev_abort;
            if (op.kind == OP_COMMIT && !s.accepting) ++ev_refused_commit;
            canon(t); encode(t, kb);
            if (g_key_overflow) { fprintf(stderr, "internal: key field overflow\n"); return 2; }
            uint32_t j = g_store.insert(kb, (uint32_t)qi, op, fresh);
            if (fresh) {
                depth.push_back(depth[qi] + 1);
                max_depth = std::max(max_depth, (int)depth[qi] + 1);
                if ((int)samples.size() < NSAMPLES && (j % 9973) == 17) samples.push_back(path_str(path_to(j)));
            }
            if (g_store.n >= MAX_STATES) { capped = true; break; }
        }
        if (capped) break;
    }
    if (samples.empty() && g_store.n > 3) samples.push_back(path_str(path_to((uint32_t)g_store.n - 1)));
    double wall = std::chrono::duration<double>(std::chrono::steady_clock::now() - t0).count();

    if (g_dump) fclose(g_dump);
    FILE* f = out_path.empty() ? stdout : fopen(out_path.c_str(), "w");
    if (!f) { perror("out"); return 2; }
    fprintf(f, "{\"prop\":\"%s\",\"cap\":%d,\"readers\":%d,\"accept_toggle\":%s,\"kset\":\"%s\",", PROP.c_str(), CAP, NR, USE_ACCEPT ? "true" : "false", KSET_FULL ? "full" : "ends");
    fprintf(f, "\"states\":%zu,\"transitions\":%llu,\"would_block_ops\":%llu,\"max_depth\":%d,\"exhaustive\":%s,\"wall_s\":%.3f,",
            g_store.n, (unsigned long long)transitions, (unsigned long long)blocked_ops, max_depth, capped ? "false" : "true", wall);
    fprintf(f, "\"events\":{\"wraps\":%llu,\"empty_reads_when_drained\":%llu,\"partial_consumption\":%llu,\"aborted_writes\":%llu,\"commits_while_refusing\":%llu,\"joins_on_nonempty\":%llu},",
            (unsigned long long)wraps, (unsigned long long)ev_empty_drained, (unsigned long long)ev_partial, (unsigned long long)ev_abort, (unsigned long long)ev_refused_commit, (unsigned long long)ev_join_nonempty);
    if (do_c03)
        fprintf(f, "\"c03\":{\"parked_cases\":%llu,\"closure_states\":%llu,\"closure_transitions\":%llu,\"wakeups\":%llu,\"refusals\":%llu,\"drain_checks\":%llu,\"max_drain_calls\":%d},",
                (unsigned long long)g_c03.parked_cases, (unsigned long long)g_c03.closure_states, (unsigned long long)g_c03.closure_transitions,
                (unsigned long long)g_c03.wakeups, (unsigned long long)g_c03.refusals, (unsigned long long)g_c03.drain_checks, g_c03.max_drain_calls);
    fprintf(f, "\"other_property_violation_counts\":{");
    { bool first = true; for (auto& kv : g_other_count) { fprintf(f, "%s\"%s\":%llu", first ? "" : ",", kv.first.c_str(), (unsigned long long)kv.second); first = false; } }
    fprintf(f, "},\"samples\":[");
    for (size_t i = 0; i < samples.size(); ++i) fprintf(f, "%s\"%s\"", i ? "," : "", json_escape(samples[i]).c_str());
    fprintf(f, "],\"violations\":[");
    for (size_t i = 0; i < g_viol.size(); ++i)
        fprintf(f, "%s{\"prop\":\"%s\",\"clause\":\"%s\",\"detail\":\"%s\",\"ops\":\"%s\",\"count\":%llu}", i ? "," : "", g_viol[i].prop.c_str(), g_viol[i].clause.c_str(),
                json_escape(g_viol[i].detail).c_str(), json_escape(g_viol[i].ops).c_str(), (unsigned long long)g_viol_count[g_viol[i].prop + ":" + g_viol[i].clause]);
    fprintf(f, "]}\n");
    if (f != stdout) fclose(f);
    (void)want01; (void)want02;
    return g_viol.empty() ? 0 : 1;
}
