"""C01 / C02 / C03(part A): explicit-state BFS of the real channel.c (engine E1 chanbfs)."""
import json, os, sys, tempfile
from . import common as C

CONFIGS = {
    # (capacity, readers, accept-toggle, kset)
    'C01': {'quick': [(c, r, True, 'full') for c in (3, 4, 5, 6) for r in (1, 2)] + [(3, 3, True, 'full'), (4, 3, False, 'full'), (3, 4, False, 'ends')],
            'thorough': [(c, r, True, 'full') for c in (3, 4, 5, 6, 7) for r in (1, 2)] + [(8, 1, True, 'full'), (8, 2, False, 'full')]
                        + [(c, 3, True, 'full') for c in (3, 4, 5)] + [(6, 3, False, 'ends')] + [(3, 4, False, 'ends'), (4, 4, False, 'ends'), (3, 5, False, 'ends'), (3, 6, False, 'ends')]},   # 8 readers is out of reach (about 9x the states per reader: (3,6) has 12 M, (3,8) about 10^9)
    'C03': {'quick': [(c, r, True, 'full') for c in (3, 4, 5) for r in (1, 2)],
            'thorough': [(c, r, True, 'full') for c in (3, 4, 5, 6) for r in (1, 2)] + [(7, 1, True, 'full'), (4, 3, True, 'full')]},
}
CONFIGS['C02'] = CONFIGS['C01']

WHAT = {
    'C01': 'all operation sequences of one writer and N readers on the real channel.c; oracle: every mapped byte is the next owed committed byte, empty => drained',
    'C02': 'same search; oracle: write regions contiguous, inside the buffer, disjoint from every mapped or unconsumed byte; oversize requests refused',
    'C03': 'same search + parked-writer closure from every state in which a request blocks: no lost wake-up, refusal releases the writer, readers drain in bounded calls',
}


def thread_part(rep, b, tier, partial=0):
    """C03 part B: real threads on channel.c + linux/platform.c under vsched, from every blocked (state, request) case of the
    E1 search for small capacities: all interleavings of the writer's check-then-sleep with reader unmaps and the refuse signal."""
    from . import rt
    exe = rt.build_rt('chan_main')
    caps = [(3, 1), (3, 2), (4, 1)] if tier == 'quick' else [(3, 1), (3, 2), (4, 1), (4, 2), (5, 1)]
    if partial:
        caps = [(3, 1), (4, 1)] if tier == 'quick' else [(3, 1), (4, 1), (3, 2), (5, 1)]
    tmp = tempfile.mkdtemp(prefix='c03b-', dir=f'{C.V}/build')
    cfgs = []
    for (cap, nr) in caps:
        f = f'{tmp}/blocked_{cap}_{nr}.txt'
        C.run_parallel([[f'{b}/chanbfs', '--cap', str(cap), '--readers', str(nr), '--prop', 'C03', '--dump-blocked', f, '--out', '/dev/null']])
        small = (cap, nr) == (3, 1)
        deep = tier == 'thorough' and cap * nr <= 4
        for (a, rd, bound) in ((0, 1, 2 if small or deep else 1), (1, 1, 2 if small or deep else 1), (1, 0, 3 if small or deep else 2)):
            if tier == 'quick' and not small and rd and not partial:
                continue # with live readers the product cases x schedules is large: thorough tier only
            if partial and not rd:
                continue
            cfgs.append(rt.cfg('c03b', bound, cases=f, with_a=a, readers=rd, **({'partial': 1} if partial else {})))
    sub = C.Report('C03', tier)
    rt.run_cfgs(sub, exe, cfgs, C.deadline_s(1500 if tier == 'thorough' else 300), 'thread-level check-then-sleep window')
    for v in sub.violations:
        rep.violation(v['fingerprint'], v['what'], v['replay'])
    cb = sub.coverage
    for c in cb['bounds']['configurations']:
        c['params']['cases'] = os.path.basename(c['params']['cases'])
    rep.coverage['thread_level_part'] = {'executions': cb['executions'], 'states': cb['states'], 'transitions': cb['transitions'], 'exhaustive': cb['exhaustive'],
                                         'distinct_outcomes': cb['distinct_outcomes_summed_over_configurations'], 'configurations': cb['bounds']['configurations'],
                                         'rule': 'W: channel_write_map(n)[+unmap]; R_i: 3 x (read_map; read_unmap(all)); A: channel_accept_writes(0); start state = every blocked (state, n) case dumped by the E1 search (chosen by a free harness choice), all schedules within the preemption bound; variants: readers only / readers + refusal / refusal with readers gone'}
    rep.coverage['states'] += cb['states']; rep.coverage['transitions'] += cb['transitions']; rep.coverage['traces_validated_against_impl'] += cb['executions']
    rep.coverage['exhaustive'] = rep.coverage['exhaustive'] and cb['exhaustive']
    import shutil
    shutil.rmtree(tmp, ignore_errors=True)


def run(pid, tier):
    rep = C.Report(pid, tier)
    b = C.make('engines/chanbfs/Makefile', 'plain')
    cfgs = CONFIGS[pid][tier]
    tmp = tempfile.mkdtemp(prefix='chanbfs-', dir=f'{C.V}/build')
    cmds, outs = [], []
    maxst = '400000000' if tier == 'thorough' else '60000000'
    for (cap, nr, acc, kset) in cfgs:
        o = f'{tmp}/{cap}_{nr}_{int(acc)}_{kset}.json'
        outs.append(o)
        cmd = [f'{b}/chanbfs', '--cap', str(cap), '--readers', str(nr), '--prop', pid, '--kset', kset, '--out', o, '--max-states', maxst]
        if not acc:
            cmd.append('--no-accept')
        cmds.append(cmd)
    res = C.run_parallel(cmds, timeout=C.deadline_s(2400 if tier == 'thorough' else 900))
    tot = {'states': 0, 'transitions': 0}
    per, samples, exhaustive = [], [], True
    events = {}
    c03 = {}
    for (cfg, o, (rc, so, se)) in zip(cfgs, outs, res):
        if rc not in (0, 1) or not os.path.exists(o):
            exhaustive = False
            per.append({'cap': cfg[0], 'readers': cfg[1], 'status': 'not completed (deadline or resource cap)', 'rc': rc})
            continue
        d = json.load(open(o))
        os.unlink(o)
        tot['states'] += d['states']; tot['transitions'] += d['transitions']
        exhaustive &= d['exhaustive']
        for k, v in d['events'].items():
            events[k] = events.get(k, 0) + v
        for k, v in d.get('c03', {}).items():
            c03[k] = max(c03.get(k, 0), v) if k == 'max_drain_calls' else c03.get(k, 0) + v
        per.append({k: d[k] for k in ('cap', 'readers', 'accept_toggle', 'kset', 'states', 'transitions', 'would_block_ops', 'max_depth', 'exhaustive', 'wall_s')})
        samples += [f"cap={d['cap']} readers={d['readers']}: {s}" for s in d['samples'][:2]]
        for v in d['violations']:
            rep.violation(f"{v['prop']}:{v['clause']}", f"{v['detail']} [cap={d['cap']} readers={d['readers']}] ops: {v['ops']}",
                          {'engine': 'chanbfs', 'cap': d['cap'], 'readers': d['readers'], 'accept_toggle': d['accept_toggle'], 'ops': v['ops'],
                           'replay_cmd': f"./vcheck replay {pid} --cap {d['cap']} --readers {d['readers']} --ops '{v['ops']}'"})
    os.rmdir(tmp)
    nontrivial = sum(1 for v in events.values() if v > 0)
    rep.coverage = {
        'states': tot['states'], 'transitions': tot['transitions'],
        'traces_validated_against_impl': tot['transitions'],
        'exhaustive': exhaustive,
        'rule': WHAT[pid] + '; every transition is one call of the real function on a restored snapshot of the real struct, so every explored trace is an implementation trace',
        'bounds': {'configurations': per},
        'events': events,
        'distinct_event_kinds_seen': nontrivial,
        'samples': samples[:12] or ['(none)'],
    }
    if c03:
        rep.coverage['parked_writer_closure'] = c03
    if pid == 'C03':
        thread_part(rep, b, tier)
    if pid == 'C02':   # a writer that slept and was woken by a notification that freed too little must not be handed unconsumed bytes
        thread_part(rep, b, tier, partial=1)
    rep.assumptions = ['operation-level atomicity of channel.c (every operation holds the channel lock from entry to exit; the unlocked store in channel_accept_writes is explored at thread level by the c03 thread check)',
                       'ring contents are modelled by per-cell stream lags; channel.c never reads ring memory',
                       'capacities and reader counts beyond the listed configurations are not enumerated']
    rep.finish()
