"""E3 checks: bounded exhaustive call-sequence x environment-answer enumeration on sequential components."""
import json, os, subprocess, tempfile
from . import common as C


def _run_json(cmd, timeout):
    try:
        p = subprocess.run(cmd, stdout=subprocess.PIPE, stderr=subprocess.PIPE, text=True, timeout=timeout)
    except subprocess.TimeoutExpired:
        return -9, None, 'timeout'
    try:
        return p.returncode, json.loads(p.stdout), p.stderr
    except Exception:
        return p.returncode, None, (p.stdout[-600:] + p.stderr[-600:])


def run_c13(tier):
    rep = C.Report('C13', tier)
    b = C.make('engines/seqx/Makefile', 'plain')
    depth = 5 if tier == 'thorough' else 4
    dl = C.deadline_s(1800 if tier == 'thorough' else 600)
    rc, d, err = _run_json([f'{b}/c13_props', '--depth', str(depth), '--max-states', '30000000', '--deadline', str(dl * 0.9)], dl + 120)
    if d is None:
        rep.violation('C13:engine-crash', f'c13_props ended with status {rc} without a verdict (a crash inside a property function corrupts the heap): {err}', {'engine': 'seqx/c13_props', 'depth': depth})
        rep.coverage = {'states': 1, 'transitions': 1, 'traces_validated_against_impl': 0, 'exhaustive': False, 'samples': ['(crashed)']}
        rep.finish()
    for v in d['violations']:
        rep.violation(f"C13:{v['clause']}", f"{v['detail']} [{v['count']} histories] ops: {v['ops']}",
                      {'engine': 'seqx/c13_props', 'ops': v['ops'], 'replay_cmd': f"{b}/c13_props --replay '{v['ops']}'"})
    rep.coverage = {'states': d['states'], 'transitions': d['transitions'], 'traces_validated_against_impl': d['transitions'], 'exhaustive': d['exhaustive'],
                    'depth': d['depth'], 'objects': d['objects'], 'alphabet_size': d['alphabet'],
                    'rule': 'BFS over all call sequences up to the depth on three objects (init/set_uri/set_external_metadata/set_access_key_and_secret/set_dimension/set_enable_multiscale/copy/destroy with NULL, empty, long and unterminated strings, valid and invalid dimension arguments); every step replays the history on the real storage.c and compares every field with a value model; allocation ledger via --wrap; every reached state is also destroyed and must leave no allocation; for histories of up to 3 calls the last call is repeated with each of its allocation requests failing in turn (judged: strings keep a live NUL-terminated buffer of their own or are unset, nothing shared or released twice, no crash, nothing left after destroying everything)',
                    'events': {k: d[k] for k in ('copies', 'copies_from_source_with_dimensions', 'destroys', 'final_state_checks', 'runs_with_an_allocation_failure')},
                    'samples': d['samples'] or ['(none)']}
    rep.assumptions = ['states are merged on (model value, allocation size behind every stored string)', 'freed blocks are quarantined and zero-scrubbed so that use-after-release is deterministic']
    rep.finish()


def run_c11(tier):
    rep = C.Report('C11', tier)
    b = C.make('engines/seqx/Makefile', 'plain')
    rc, d, err = _run_json([f'{b}/c11_hal'], C.deadline_s(600))
    if d is None:
        rep.violation('C11:engine-crash', f'c11_hal ended with status {rc} without a verdict: {err}', {'engine': 'seqx/c11_hal'})
        rep.coverage = {'states': 1, 'transitions': 1, 'traces_validated_against_impl': 0, 'exhaustive': False, 'samples': ['(crashed)']}
        rep.finish()
    for v in d['violations']:
        rep.violation(f"C11:{v['clause']}", f"{v['detail']} [{v['count']} transitions] history: {v['history']}",
                      {'engine': 'seqx/c11_hal', 'history': v['history'], 'replay_cmd': f"{b}/c11_hal --replay '{v['history']}'"})
    rep.coverage = {'states': d['states'], 'transitions': d['transitions'], 'traces_validated_against_impl': d['transitions'], 'exhaustive': True,
                    'driver_entries_answered': d['driver_entries_answered'], 'longest_shortest_history': d['longest_shortest_history'],
                    'rule': 'explicit-state search to a FIXPOINT over HAL calls (open, open with wrong kind / incomplete driver, set, get, get_meta, get_shape, start, stop, trigger, get_frame, append(empty|1 frame), reserve, validate, close, calls on a NULL handle) x every answer of every driver entry the call reaches (camera: Ok/Err; storage: every DeviceState); a state is a call/answer history replayed on a fresh page-protected device, merged on (HAL state, reference state, driver open/running)',
                    'samples': d['samples'] or ['(none)']}
    rep.assumptions = ['single-threaded HAL use', 'a storage driver is running exactly while its own last start/append/stop answer was Running; set answers Armed/AwaitingConfiguration/Closed and neither starts nor stops',
                       'reference state table: camera set Ok->Armed (Running kept), set Err->AwaitingConfiguration, start Ok->Running/Err->AwaitingConfiguration, stop Ok->Armed/Err->AwaitingConfiguration, get_frame Err->AwaitingConfiguration; storage: the driver\'s answer, Running kept when set answers Armed on a running device']
    rep.finish()


def _simple(pid, tier, exe, argsets, rule, assumptions, timeout=None):
    """runs one harness executable with several argument sets (in parallel), merges the JSON summaries"""
    rep = C.Report(pid, tier)
    b = C.make('engines/seqx/Makefile', 'plain')
    cmds = [[f'{b}/{exe}', *a] for a in argsets]
    res = C.run_parallel(cmds, timeout=timeout or C.deadline_s(1800 if tier == 'thorough' else 600))
    tot, samples, per, exhaustive = {}, [], [], True
    for a, (rc, so, se) in zip(argsets, res):
        try:
            d = json.loads(so)
        except Exception:
            exhaustive = False
            if rc == -9 and se == 'timeout':
                per.append({'args': ' '.join(a), 'status': 'not completed before the deadline'})
                continue
            rep.violation(f'{pid}:engine-crash', f'{exe} {" ".join(a)} ended with status {rc} without a verdict: {(so[-300:] + se[-300:])}', {'engine': f'seqx/{exe}', 'args': a})
            continue
        for v in d.pop('violations'):
            spec = v.get('spec') or v.get('history') or v.get('ops') or ''
            rep.violation(f"{pid}:{v['clause']}", f"{v['detail']} [{v['count']} runs] {spec}",
                          {'engine': f'seqx/{exe}', 'args': a, 'spec': spec, 'replay_cmd': f"{b}/{exe} {' '.join(a)} --replay '{spec}'"})
        samples += d.pop('samples', [])[:4]
        exhaustive &= bool(d.get('exhaustive', True))
        per.append({'args': ' '.join(a), **{k: v for k, v in d.items() if isinstance(v, (int, float, bool, str))}})
        for k, v in d.items():
            if isinstance(v, int) and not isinstance(v, bool):
                tot[k] = tot.get(k, 0) + v
    return rep, tot, samples, per, exhaustive


def run_c14(tier):
    args = [['--cycles', '2', '--dev', '2'], ['--cycles', '3', '--dev', '1']] if tier == 'quick' else [['--cycles', '2', '--dev', '3'], ['--cycles', '3', '--dev', '2']]
    rep, tot, samples, per, ex = _simple('C14', tier, 'c14_raw', args, '', [])
    rep.coverage = {'states': tot.get('histories', 0) or 1, 'transitions': tot.get('runs', 0) or 1, 'traces_validated_against_impl': tot.get('runs', 0), 'exhaustive': ex,
                    'rule': 'every history of 1-3 set/start/append*/stop cycles on one raw device (1-3 frames of 104/112/120 bytes per cycle, every grouping into packets, plain / file:// / short relative URI per cycle) x every placement of <= d deviations (short by 1, 1 byte, 0 bytes) over the pwrite calls, three consecutive stalls, an interrupted write (EINTR) at every pwrite index alone and right after a short write, a second raw device pointed at the file being recorded, a rejected live set; a refused append leaves the accepted packets unchanged at the front of the file; each run executes the real raw.c, HAL storage.c and platform.c file_write on real files; states = histories, transitions = runs',
                    'events': {k: tot.get(k, 0) for k in ('runs_with_short_or_zero_writes', 'runs_with_an_interrupted_write', 'runs_with_a_second_device_on_the_same_file', 'runs_with_a_rejected_live_set', 'runs_judged', 'multi_cycle_histories')},
                    'bounds': {'configurations': per}, 'samples': samples or ['(none)']}
    rep.assumptions = ['the interposed pwrite/open/close model the kernel: a short write returns fewer bytes than asked and writes exactly those', 'different paths per cycle (the property speaks of earlier acquisitions to other paths)']
    rep.finish()


def run_c15(tier):
    args = [['--cycles', '1'], ['--cycles', '2']]
    rep, tot, samples, per, ex = _simple('C15', tier, 'c15_tiff', args, '', [])
    rep.coverage = {'states': tot.get('runs', 0) or 1, 'transitions': tot.get('files_parsed', 0) or 1, 'traces_validated_against_impl': tot.get('files_parsed', 0), 'exhaustive': ex,
                    'rule': 'full product kind{tiff,tiff-json} x shape{1x1,3x2,5x1,33x3} x 8 sample types x N{1,2,3} x every grouping into packets x metadata{none,{},nested} x pixel scale{(1,1),(0.5,2),(0,0)} x URI{plain,file://} for one cycle, and a second start/stop cycle (other N / metadata) on a sub-product; description-length sweep and a metadata-content sweep (format directives, escapes, nested arrays; forked per run); short-write and failing-write plans; 5 frames of 1 GiB (sparse); every file is written by the real tiff.cpp / side-by-side-tiff.cpp through the HAL and parsed by an independent BigTIFF reader + JSON parser; states = device histories, transitions = files parsed',
                    'events': {k: tot.get(k, 0) for k in ('runs', 'files_parsed', 'configurations_refused_by_the_device')},
                    'bounds': {'configurations': per}, 'samples': samples or ['(none)']}
    rep.assumptions = ['the independent reader and JSON parser in c15_tiff.cpp are the trusted base', 'strip tails beyond the image bytes (8-byte padding) are tolerated: the property asks for the pixel bytes unchanged', 'tag order / resolution tags are not judged (not part of the property)']
    rep.finish()


def run_c16(tier):
    depth = '5' if tier == 'thorough' else '4'
    args = [['--kind', k, '--depth', depth] for k in ('3', '4', '5', '6')]
    rep, tot, samples, per, ex = _simple('C16', tier, 'c16_faults', args, '', [])
    rep.coverage = {'states': tot.get('histories', 0) or 1, 'transitions': tot.get('runs', 0) or 1, 'traces_validated_against_impl': tot.get('runs', 0), 'exhaustive': ex,
                    'rule': 'for raw, tiff, trash and tiff-json: every history open;{set,start,append,stop}^<=depth;close x {no fault, the j-th create fails, every create fails, the k-th write fails once, every write from the k-th on fails, two writes fail, the j-th close reports an error, the file lock is refused, other errno values and stalls, descriptor 0 free when the device creates its files}; each run in a forked child with a 4 MiB stack and a 10 s alarm (crash / unbounded recursion / hang are verdicts); descriptor ledger in the interposed open/close/pwrite with foreign descriptors opened and closed between calls',
                    'events': {k: tot.get(k, 0) for k in ('histories', 'runs', 'runs_with_faults')},
                    'bounds': {'configurations': per}, 'samples': samples or ['(none)']}
    rep.assumptions = ['write failures inside start() (tiff header, metadata.json) are only judged for crashes and descriptor discipline: the property asks for the report by the end of a failing append', 'EIO / EACCES stand for every errno']
    rep.finish()


def run_c12(tier):
    """16 installations: every subset of {common driver, stub1, stub2, library without entry point} next to a copy of the
    executable (the loader resolves libraries relative to the module that contains platform.c)."""
    import itertools, shutil
    rep = C.Report('C12', tier)
    b = C.make('engines/seqx/Makefile', 'plain')
    src = f'{b}/c12'
    root = f'{b}/c12-installs'
    shutil.rmtree(root, ignore_errors=True)
    libs = [('common', 'libacquire-driver-common.so'), ('stub1', 'libacquire-driver-hdcam.so'), ('stub2', 'libacquire-driver-zarr.so'), ('noentry', 'libacquire-driver-egrabber.so')]
    # length 4 over the 19-symbol alphabet is not feasible: some 4-symbol patterns make libstdc++'s backtracking matcher (the
    # repository's own regex_match call) take seconds each (measured: one of 16 shards > 15 min).  Thorough = length 3 on every
    # installation (quick: length 3 on three installations, 2 on the others)
    maxlen_full = 3
    cmds, names = [], []
    for mask in range(16):
        d = f'{root}/{mask:02d}'
        os.makedirs(d)
        shutil.copy(f'{src}/c12_select', f'{d}/c12_select')
        present = []
        for i, (n, target) in enumerate(libs):
            if mask >> i & 1:
                shutil.copy(f'{src}/{n}.so', f'{d}/{target}')
                present.append(n)
        full = mask in (15, 1, 7) or tier == 'thorough'
        nsh = 16 if (full and maxlen_full >= 4 and mask == 15) else 1
        ml = maxlen_full if (mask == 15 or (full and maxlen_full <= 3)) else (3 if full else 2)
        for sh in range(nsh):
            cmds.append([f'{d}/c12_select', '--maxlen', str(ml), '--shard', f'{sh}/{nsh}'])
            names.append('+'.join(present) or '(no driver library)')
    res = C.run_parallel(cmds, timeout=C.deadline_s(1800 if tier == 'thorough' else 600))
    tot, per, samples, ex = {}, [], [], True
    for name, cmd, (rc, so, se) in zip(names, cmds, res):
        try:
            d = json.loads(so)
        except Exception:
            ex = False
            if rc == -9 and se == 'timeout':
                per.append({'libraries_present': name, 'status': 'not completed before the deadline'})
                continue
            rep.violation('C12:crash', f'c12_select with libraries [{name}] ended with status {rc} without a verdict (crash or escaping exception): {(so[-200:] + se[-300:])}', {'engine': 'seqx/c12_select', 'libraries': name, 'cmd': ' '.join(cmd)})
            continue
        for v in d.pop('violations'):
            rep.violation(f"C12:{v['clause']}", f"{v['detail']} [{v['count']} calls; libraries: {name}] {v['spec']}", {'engine': 'seqx/c12_select', 'libraries': name, 'spec': v['spec'], 'cmd': ' '.join(cmd)})
        samples += [f'[{name}] {s}' for s in d.pop('samples', [])[:3]]
        per.append({'libraries_present': name, **{k: v for k, v in d.items() if isinstance(v, (int, float, bool))}})
        for k, v in d.items():
            if isinstance(v, int) and not isinstance(v, bool):
                tot[k] = tot.get(k, 0) + v
    shutil.rmtree(root, ignore_errors=True)
    rep.coverage = {'states': tot.get('patterns', 0) or 1, 'transitions': tot.get('select_calls', 0) or 1, 'traces_validated_against_impl': tot.get('select_calls', 0), 'exhaustive': ex,
                    'rule': 'for each of the 16 subsets of optional driver libraries: enumerate, get every index 0..count+2, open every enumerated identifier, select with every DeviceKind value 0..7, 100, -1, and with every byte string up to the length over {r a w t . * + ? | ( ) [ ] \\\\ - : space NUL R} plus whole-name / prefix / suffix / case-flipped / NUL-padded / escaped / 255-byte variants of every enumerated name; strong oracle: first enumerated device of the kind whose whole name matches per an independent Thompson-NFA matcher; weak oracle outside the matcher\'s subset, but a pattern that is malformed beyond doubt (unclosed parenthesis or bracket expression, no escapes) must give an error; plus every sequence of three selections (with repetition) over a menu of well-formed, non-matching and malformed patterns on one manager: answers do not depend on the history',
                    'events': {k: tot.get(k, 0) for k in ('select_calls', 'judged_by_reference_matcher', 'weak_oracle_only', 'malformed_beyond_doubt', 'select_history_sequences', 'get_calls', 'devices_opened', 'devices_enumerated')},
                    'bounds': {'configurations': per}, 'samples': samples[:12] or ['(none)']}
    rep.assumptions = ['patterns longer than the bound are not enumerated (the property quantifies over all strings up to 255 bytes)', 'the reference matcher covers literals, ., classes, \\d\\s\\w and identity escapes of punctuation, * + ? (lazy too), |, groups; everything else is judged by the weak oracle']
    rep.finish()


def run_c17(tier):
    """part (a): configuration/sequence sweep under AddressSanitizer, both bin2 variants, 8 shards each;
    part (b): re-configuration while streaming under the controlled scheduler (vsched, electric-fence buffers)."""
    from . import rt
    rep = C.Report('C17', tier)
    p = subprocess.run(['make', '-s', '-j', str(C.NPROC), '-f', f'{C.V}/engines/seqx/Makefile', f'V={C.V}', f'REPO={C.REPO}', 'FLAVOUR=asan', 'c17'], stdout=subprocess.PIPE, stderr=subprocess.STDOUT, text=True)
    if p.returncode:
        print(p.stdout[-4000:]); print('BUILD-FAILED'); raise SystemExit(2)
    b = C.bdir('asan')
    nsh = 8
    cmds = [[f'{b}/c17_simcam.{v}', '--tier', tier, '--shard', f'{i}/{nsh}'] for v in ('avx2', 'plain') for i in range(nsh)]
    res = C.run_parallel(cmds, timeout=C.deadline_s(1800 if tier == 'thorough' else 600))
    tot, samples, per, ex = {}, [], [], True
    for cmd, (rc, so, se) in zip(cmds, res):
        try:
            d = json.loads(so)
        except Exception:
            ex = False
            if rc == -9 and se == 'timeout':
                continue  # deadline: reported as exhaustive:false
            rep.violation('C17:engine-crash', f'{" ".join(cmd)} ended with status {rc} without a verdict: {(so[-200:] + se[-300:])}', {'engine': 'seqx/c17_simcam', 'cmd': ' '.join(cmd)})
            continue
        for v in d.pop('violations'):
            rep.violation(f"C17:{v['clause']}", f"{v['detail']} [{v['count']} sequences, {d['variant']}] configuration sequence (kind,binning,type,w,h,ox,oy): {v['spec']}",
                          {'engine': 'seqx/c17_simcam', 'spec': v['spec'], 'variant': d['variant'], 'replay_cmd': f"ASAN_OPTIONS=halt_on_error=0:detect_leaks=0:log_path=stderr {cmd[0]} --replay '{v['spec']}'"})
        samples += d.pop('samples', [])[:1]
        for k in ('runs', 'asan_reports'):
            tot[k] = tot.get(k, 0) + d[k]
        tot['configurations'] = d['configurations']; tot['sequences'] = d['sequences']
    # part (b)
    exe = rt.build_rt('simcam_main')
    # bufbytes: the caller's buffer holds the larger of the two images, so its frame call stays pending across the re-configuration
    cfgs = [rt.cfg('c17r', 'D2', w=8, h=8, w2=64, h2=64, type2=1, kind=0), rt.cfg('c17r', 'D2', w=64, h=64, binning=2, w2=8, h2=8, binning2=1, kind=1),
            rt.cfg('c17r', 'D2', w=8, h=8, binning=2, w2=64, h2=64, kind=0), rt.cfg('c17r', 'D2', w=64, h=64, w2=1, h2=1, kind=2, type2=4),
            rt.cfg('c17r', 'D2', w=8, h=8, w2=64, h2=64, type2=1, kind=0, bufbytes=16384), rt.cfg('c17r', 'D2', w=64, h=64, w2=8, h2=8, binning2=1, kind=1, bufbytes=16384),
            rt.cfg('c17t', 'D2', w=32, h=32, w2=4, h2=4, kind=2, type2=0, bufbytes=16384, trigger=1, frames=2), rt.cfg('c17t', 'D2', w=4, h=4, w2=32, h2=32, kind=0, type2=0, bufbytes=16384, trigger=1, frames=2),
            rt.cfg('c17t', 1, w=64, h=64, binning=2, w2=8, h2=8, binning2=1, kind=1, type2=0, bufbytes=16384, trigger=1, frames=2),
            rt.cfg('c17r', 'D2', w=32, h=32, w2=4, h2=4, kind=2, type2=0, bufbytes=16384, trigger=1), rt.cfg('c17r', 'D2', w=4, h=4, w2=32, h2=32, kind=0, type2=0, bufbytes=16384, trigger=1),
            rt.cfg('c17r', 1, w=8, h=8, w2=64, h2=64, kind=0),
            rt.cfg('c17r', 'D1', w=8, h=8, binning=2, w2=64, h2=64, kind=0, misalign=1), rt.cfg('c17r', 'D1', w=33, h=3, binning=4, w2=8, h2=8, binning2=2, kind=1, misalign=1)]
    if tier == 'thorough':
        cfgs += [rt.cfg('c17r', 'D3', **c['params']) for c in cfgs[:4]] + [rt.cfg('c17r', 2, w=8, h=8, w2=64, h2=64, kind=0)]
    rep_b = C.Report('C17', tier)
    rt.run_cfgs(rep_b, exe, cfgs, C.deadline_s(1200 if tier == 'thorough' else 300), 're-configuration while streaming')
    for v in rep_b.violations:
        rep.violation(v['fingerprint'], v['what'], v['replay'])
    cb = rep_b.coverage
    rep.coverage = {'states': (tot.get('sequences', 0) * 2 or 1) + cb['states'], 'transitions': (tot.get('runs', 0) or 1) + cb['transitions'], 'traces_validated_against_impl': tot.get('runs', 0) + cb['executions'],
                    'exhaustive': ex and cb['exhaustive'],
                    'rule': 'part (a): kinds {random, sin, empty} x binning {1,2,4,8} x 8 sample types x boundary shapes {1,2,3,31,32,33,63,64,65} (+ 1023..1025, 8191..8193 for u8/u16) x offsets, each alone and in re-configuration pairs with five partner configurations, set/start/short-buffer get_frame/2x get_frame/stop per configuration, under AddressSanitizer, for simulated.camera.c built with bin2.avx2.c and with bin2.plain.c; part (b): set() while the streamer renders and a frame call is pending, all schedules within the bound, camera buffers on electric-fence pages',
                    'part_a': {**tot, 'variants': ['bin2.avx2', 'bin2.plain']}, 'part_b': {k: cb[k] for k in ('executions', 'states', 'transitions', 'exhaustive')},
                    'bounds': {'configurations': cb['bounds']['configurations']}, 'samples': (samples[:6] + cb['samples'][:3]) or ['(none)']}
    rep.assumptions = ['shapes are enumerated at the listed boundary values, not all of 1..8192', 'part (a) runs free (real threads, real time): it decides configuration-dependent properties only', 'ASan is the memory oracle of part (a); PROT_NONE pages of part (b)']
    rep.finish()
