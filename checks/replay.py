"""vcheck replay <replays/<id>/<hash>.json>: re-executes one recorded violation without the explorer and prints the trace."""
import json, os, subprocess, sys
from . import common as C


def main(argv):
    if not argv:
        print('usage: vcheck replay <file.json>'); sys.exit(2)
    d = json.load(open(argv[0]))
    eng = d.get('engine', '')
    if eng == 'chanbfs':
        b = C.make('engines/chanbfs/Makefile', 'plain')
        cmd = [f'{b}/chanbfs', '--cap', str(d['cap']), '--readers', str(d['readers']), '--prop', d['property'], '--replay', d['ops']]
        if not d.get('accept_toggle', True):
            cmd.append('--no-accept')
    elif eng == 'vsched':
        b = C.make('engines/vsched/Makefile', 'cov')
        cmd = [f"{b}/{d.get('exe', 'rt_main')}", '--scenario', d['scenario']]
        for k, v in d['params'].items():
            cmd += ['--param', f'{k}={v}']
        if d.get('bound_kind') == 'delay':
            cmd.append('--delay-bounding')
        cmd += ['--replay', d['choices']]
    elif 'replay_cmd' in d:
        C.make('engines/seqx/Makefile', 'plain')
        print('+', d['replay_cmd'])
        sys.exit(subprocess.call(d['replay_cmd'], shell=True))
    else:
        print('no replay recipe in', argv[0]); sys.exit(2)
    print('+', ' '.join(cmd))
    sys.exit(subprocess.call(cmd))
