"""E2 checks (C04..C10, C18, C03 thread part): preemption-bounded exhaustive schedule enumeration of the real
runtime under the vsched scheduler.  Each configuration = (scenario, params, bound) is explored completely
(or until the deadline, which is then reported as exhaustive:false)."""
import json, os, subprocess, tempfile, time
from . import common as C

EVENT_NAMES = {1: 'storage got >1 packet', 2: 'sink ring wrapped', 3: 'filter ring wrapped', 4: 'trailing incomplete window',
               10: 'client consumed part of a multi-frame region', 11: 'client saw frames', 12: 'client held a region across stop/abort',
               40: 'camera fault injected', 41: 'storage fault injected', 42: 'multi-frame packet at storage', 43: 'device closed while started',
               20: 'writer slept on a full ring', 21: 'abort arrived while the source was blocked', 22: 'frame delivered after trigger'}


def cfg(scenario, bound, **params):
    return {'scenario': scenario, 'bound': bound, 'params': params}


def run_cfgs(rep, exe, cfgs, budget_s, label):
    t_end = time.time() + budget_s
    tot = dict(executions=0, steps=0, points=0)
    per, samples, outcomes = [], [], 0
    events = {}
    exhaustive = True
    edges = 0
    tmpd = tempfile.mkdtemp(prefix='vs-', dir=f'{C.V}/build')
    for i, c in enumerate(cfgs):
        left = t_end - time.time()
        if left < 2:
            exhaustive = False
            per.append({**c, 'status': 'skipped: global deadline reached'})
            continue
        out = f'{tmpd}/{i}.json'
        cmd = [exe, '--scenario', c['scenario'], '--bound', str(c['bound']), '--jobs', str(C.NPROC), '--deadline', f'{left:.0f}', '--out', out]
        for k, v in c['params'].items():
            cmd += ['--param', f'{k}={v}']
        p = subprocess.run(cmd, stdout=subprocess.PIPE, stderr=subprocess.PIPE, text=True)
        if p.returncode not in (0, 1) or not os.path.exists(out):
            rep.violation(f"{rep.pid}:{c['scenario']}:engine-failure", f"explorer exited {p.returncode}: {p.stderr[-400:]}", {'engine': 'vsched', **c})
            exhaustive = False
            continue
        d = json.load(open(out))
        os.unlink(out)
        tot['executions'] += d['executions']; tot['steps'] += d['steps']; tot['points'] += d['choice_points']
        outcomes += d['distinct_outcomes']
        edges = max(edges, d['edges_covered'])
        exhaustive &= bool(d['exhaustive']) or bool(d['violations'])
        for e, n in enumerate(d['event_counts']):
            if n:
                events[EVENT_NAMES.get(e, f'event{e}')] = events.get(EVENT_NAMES.get(e, f'event{e}'), 0) + n
        per.append({'scenario': c['scenario'], 'bound': c['bound'], 'params': c['params'], 'executions': d['executions'], 'choice_points': d['choice_points'],
                    'max_choice_points_per_execution': d['max_choice_points'], 'distinct_outcomes': d['distinct_outcomes'], 'exhaustive': d['exhaustive'],
                    'status_counts': {k: v for k, v in d['status_counts'].items() if v}, 'wall_s': d['wall_s']})
        if d['unconfirmed']:
            rep.unconfirmed.append({'scenario': c['scenario'], 'params': c['params'], 'count': d['unconfirmed']})
        for v in d['violations']:
            clause = v['clause']
            fp = clause if clause[:1] == 'C' and clause[3:4] == ':' else f"{rep.pid}:{c['scenario']}:{clause}"
            pstr = ' '.join(f'--param {k}={x}' for k, x in c['params'].items())
            rep.violation(fp, f"{v['msg'][:600]} [scenario {c['scenario']} {c['params']} bound {c['bound']}, {v['deviations']} deviations, {v['count']} schedules]",
                          {'engine': 'vsched', 'exe': os.path.basename(exe), 'scenario': c['scenario'], 'params': c['params'], 'bound': c['bound'], 'choices': v['choices'],
                           'status': v['status'], 'confirmed_by_replay': v['confirmed_by_replay'],
                           'replay_cmd': f"{exe} --scenario {c['scenario']} {pstr} --replay '{v['choices']}'"})
        if len(samples) < 10:
            samples.append({'scenario': c['scenario'], 'params': c['params'], 'bound': c['bound'], 'executions': d['executions'],
                            'example_schedule': 'default schedule (all choices 0) plus every placement of <= bound deviations'})
    os.rmdir(tmpd)
    rep.coverage = {
        'states': tot['points'], 'transitions': tot['steps'], 'traces_validated_against_impl': tot['executions'],
        'executions': tot['executions'], 'distinct_outcomes_summed_over_configurations': outcomes,
        'exhaustive': exhaustive, 'repository_edges_covered': edges,
        'rule': label + '; states = scheduling states at which more than one thread could be chosen, transitions = scheduling steps, every execution runs the real code',
        'events': events, 'bounds': {'configurations': per}, 'samples': samples or ['(none)'],
    }
    rep.assumptions = ['sequential consistency; scheduling points at every pthread/sleep operation of linux/platform.c and at every access to the registered racy flags (clang load/store callbacks)',
                       'virtual time: advances when all threads wait; early wake-up of a sleeper is one deviation',
                       'mock camera/storage devices honour the device-kit contract; ring sizes, frame counts and shapes as listed per configuration']


def build_rt():
    b = C.make('engines/vsched/Makefile', 'cov')
    return f'{b}/rt_main'


# ---------------------------------------------------------------- per-property configuration tables
def c04_cfgs(tier):
    base = dict(exposure=4)
    q = [cfg('c04', 1, n=3, ringf=2, ringx=8, **base),
         cfg('c04', 1, n=3, ringf=1, ringx=1, **base),
         cfg('c04', 1, n=4, ringf=2, ringx=56, w=9, **base),            # 112-byte frames: size not a multiple of the payload
         cfg('c04', 1, n=3, ringf=2, ringx=8, append_ms=25, **base),    # storage slower than the camera: writer sleeps on a full ring
         cfg('c04', 1, n=3, ringf=2, ringx=8, exposure=25),             # camera slower than the sink poll
         cfg('c04', 1, n=3, ringf=3, ringx=8, write_delay=15, tick_us=500, **base),
         cfg('c04', 1, n=3, ringf=2, ringx=8, client=1, **base),        # monitoring client, fast
         cfg('c04', 0, n=3, ringf=2, ringx=8, client=2, **base),        # slow client
         cfg('c04', 0, n=2, n1=3, streams=2, ringf=2, ringx=8, **base),
         cfg('c04', 2, n=2, ringf=1, ringx=1, **base)]
    if tier == 'quick':
        return q
    t = list(q)
    t += [cfg('c04', 2, n=3, ringf=2, ringx=8, **base), cfg('c04', 2, n=3, ringf=1, ringx=1, **base),
          cfg('c04', 2, n=3, ringf=2, ringx=8, append_ms=25, **base), cfg('c04', 2, n=3, ringf=2, ringx=8, client=1, **base),
          cfg('c04', 1, n=4, ringf=3, ringx=8, client=4, **base), cfg('c04', 1, n=2, n1=3, streams=2, ringf=2, ringx=8, **base),
          cfg('c04', 1, n=4, ringf=2, ringx=8, write_delay=15, tick_us=500, **base),
          cfg('c04', 3, n=2, ringf=1, ringx=1, **base)]
    return t


def c05_cfgs(tier):
    out = []
    types = range(8)
    ws = range(1, 10) if tier == 'thorough' else (1, 2, 3, 5, 8, 9)
    hs = (1, 2, 3) if tier == 'thorough' else (1, 3)
    for t in types:
        for w in ws:
            for h in hs:
                out.append(cfg('c04', 0, n=3, ringf=2, ringx=8, w=w, h=h, type=t, exposure=4, client=3))
    out += [cfg('c04', 1, n=4, ringf=3, ringx=8, w=5, h=1, type=0, exposure=4, client=3),
            cfg('c04', 1, n=4, ringf=3, ringx=40, w=3, h=3, type=1, exposure=4, client=3)]
    if tier == 'thorough':
        out += [cfg('c04', 2, n=3, ringf=2, ringx=8, w=5, h=1, type=0, exposure=4, client=3)]
    return out


def c06_cfgs(tier):
    base = dict(exposure=4, n=3, ringf=2, ringx=8)
    progs = ['m', 'mm', 'p', 'pm', 'z', 'hm', 'mH', 'wm']
    q = [cfg('c06', 0, ends=e, prog=p, **base) for e in ('ss', 'as', 'sa') for p in progs]
    q += [cfg('c06', 1, ends='ss', prog='mm', **base), cfg('c06', 1, ends='as', prog='pm', **base), cfg('c06', 1, ends='ss', prog='m', **{**base, 'from': 1}),
          cfg('c06', 1, ends='as', prog='mH', **base)]
    if tier == 'quick':
        return q
    t = list(q)
    import itertools
    ops = 'mpzhw'
    allp = [''.join(x) for k in (1, 2, 3) for x in itertools.product(ops, repeat=k)]
    t += [cfg('c06', 0, ends=e, prog=p, **base) for e in ('sss', 'asa', 'saa', 'aas') for p in allp]
    t += [cfg('c06', 1, ends=e, prog=p, **base) for e in ('ss', 'as', 'sa', 'aa') for p in ('mm', 'pm', 'hm', 'mH', 'zm', 'pp')]
    t += [cfg('c06', 2, ends='as', prog='m', **base), cfg('c06', 2, ends='ss', prog='p', **{**base, 'n': 2})]
    return t


def c07_cfgs(tier):
    base = dict(exposure=4, ringf=2, ringx=8)
    q = [cfg('c07', 1, n=1000000, variant=0, **base),                           # infinite acquisition, abort from a controller thread at every point
         cfg('c07', 1, n=3, variant=0, **base),                                 # finite, may already be finished
         cfg('c07', 1, n=1000000, variant=0, trigger=1, **base),                # camera waiting for a software trigger
         cfg('c07', 1, n=1000000, variant=0, append_ms=40, **{**base, 'ringf': 1, 'ringx': 1}),  # ring full, source asleep
         cfg('c07', 1, n=1000000, variant=0, avg=2, **base),                    # averaging active
         cfg('c07', 1, n=1000000, variant=1, prog='mH', **base),                # client holds a mapped region across its own abort
         cfg('c07', 1, n=3, variant=0, ctl_stop=1, **base),                     # stop from another thread on a finite acquisition
         cfg('c07', 0, n=1000000, variant=2, **base),                           # two concurrent aborts
         cfg('c07', 2, n=1000000, variant=0, append_ms=40, **{**base, 'ringf': 1, 'ringx': 1})]
    if tier == 'quick':
        return q
    t = list(q)
    t += [cfg('c07', 2, n=1000000, variant=0, **base), cfg('c07', 2, n=1000000, variant=0, trigger=1, **base), cfg('c07', 2, n=1000000, variant=0, avg=2, **base),
          cfg('c07', 2, n=3, variant=0, **base), cfg('c07', 2, n=1000000, variant=1, prog='mH', **base), cfg('c07', 1, n=1000000, variant=0, client_polls=1, **base),
          cfg('c07', 1, n=1000000, variant=2, **base), cfg('c07', 1, n=1000000, variant=0, streams=2, **base),
          cfg('c07', 3, n=1000000, variant=0, append_ms=40, **{**base, 'ringf': 1, 'ringx': 1})]
    return t


def c09_cfgs(tier):
    base = dict(exposure=4, n=3)
    q = []
    for k in (0, 1, 2):
        for end in (0, 1):
            q.append(cfg('c09', 1 if k == 1 else 0, camfail=k, end_abort=end, ringf=2, ringx=8, **base))
            q.append(cfg('c09', 1 if k == 1 else 0, storefail=k, end_abort=end, ringf=2, ringx=8, **base))
    q += [cfg('c09', 1, storefail=0, end_abort=0, ringf=1, ringx=1, append_ms=30, **base),   # source asleep on a full ring when the sink dies
          cfg('c09', 1, storefail=1, end_abort=0, ringf=1, ringx=1, append_ms=30, **base)]
    if tier == 'quick':
        return q
    t = []
    for k in (0, 1, 2, 3):
        for end in (0, 1):
            for ring in ((2, 8), (1, 1), (6, 8)):
                t.append(cfg('c09', 1, camfail=k, end_abort=end, ringf=ring[0], ringx=ring[1], **base))
                t.append(cfg('c09', 1, storefail=k, end_abort=end, ringf=ring[0], ringx=ring[1], **base))
                t.append(cfg('c09', 1, storefail=k, end_abort=end, ringf=ring[0], ringx=ring[1], append_ms=30, **base))
    t += [cfg('c09', 2, storefail=0, end_abort=0, ringf=1, ringx=1, append_ms=30, **{**base, 'n': 2}), cfg('c09', 2, camfail=1, end_abort=0, ringf=2, ringx=8, **{**base, 'n': 2}),
          cfg('c09', 1, storefail=1, end_abort=0, ringf=2, ringx=8, avg=2, **{**base, 'n': 4}), cfg('c09', 1, camfail=1, end_abort=0, ringf=2, ringx=8, client_polls=1, **base)]
    return t


def c10_cfgs(tier):
    base = dict(exposure=4, prefill=0x42, ringf=2, ringx=8, fringf=2, fringx=8)
    q = [cfg('c10', 1, avg=2, n=n, **base) for n in (2, 3, 4)]
    q += [cfg('c10', 0, avg=2, n=5, type=t, **base) for t in (0, 1, 2, 3, 5, 6, 7)]
    q += [cfg('c10', 0, avg=3, n=7, w=2, h=2, **base), cfg('c10', 0, avg=2, n=6, **{**base, 'prefill': 0}), cfg('c10', 0, avg=2, n=4, client=1, **base)]
    if tier == 'quick':
        return q
    t = list(q)
    for k in (2, 3):
        for n in (k, k + 1, 2 * k, 2 * k + 1):
            for (w, h) in ((1, 1), (3, 1), (2, 2)):
                for ty in (0, 1, 2, 3, 5, 6, 7):
                    t.append(cfg('c10', 0, avg=k, n=n, w=w, h=h, type=ty, **base))
            t.append(cfg('c10', 1, avg=k, n=n, **{**base, 'ringf': 3, 'fringf': 3}))
    t += [cfg('c10', 2, avg=2, n=3, **base), cfg('c10', 2, avg=2, n=4, **base), cfg('c10', 1, avg=2, n=4, client=1, **base), cfg('c10', 1, avg=2, n=4, append_ms=25, **base)]
    return t


TABLE = {
    'C04': (c04_cfgs, 'configurations x all schedules with <= bound deviations of start;[client polls];stop on the real runtime; oracle: storage log == frames delivered by the camera'),
    'C05': (c05_cfgs, 'shape sweep (all residues of the image size mod 8) x schedules; oracle: every packet at storage and every region mapped by the client is a chain of whole 8-byte aligned frames with the exact padded size and the camera\'s shape'),
    'C06': (c06_cfgs, 'client programs x acquisition sequences ended by stop/abort x schedules; oracle: consecutive ids, this acquisition\'s pixels, nothing delivered after stop/abort, map/unmap always succeed, storage unaffected'),
    'C07': (c07_cfgs, 'abort (or stop) from a controller thread runnable at every point x situations x schedules; oracle: returns, workers joined, devices stopped, Armed, storage holds a prefix; follow-up acquisition complete'),
    'C09': (c09_cfgs, 'fault site x fault kind x ring x end call x schedules; oracle: nothing appended after the failure, camera stopped, stop/abort return, not Running, fault-free follow-up acquisition complete'),
    'C10': (c10_cfgs, 'window x frame count x sample type x shape x dirty rings x schedules; oracle: one f32 frame per window with the exact mean and the first input\'s id, at most one trailing frame'),
}


def run(pid, tier):
    rep = C.Report(pid, tier)
    exe = build_rt()
    fn, label = TABLE[pid]
    budget = C.deadline_s(3000 if tier == 'thorough' else 600)
    run_cfgs(rep, exe, fn(tier), budget, label)
    rep.finish()
