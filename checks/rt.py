"""E2 checks (C04..C10, C18, C03 thread part): preemption-bounded exhaustive schedule enumeration of the real
runtime under the vsched scheduler.  Each configuration = (scenario, params, bound) is explored completely
(or until the deadline, which is then reported as exhaustive:false)."""
import json, os, subprocess, tempfile, time
from . import common as C

EVENT_NAMES = {1: 'storage got >1 packet', 2: 'sink ring wrapped', 3: 'filter ring wrapped', 4: 'trailing incomplete window',
               10: 'client consumed part of a multi-frame region', 11: 'client saw frames', 12: 'client held a region across stop/abort', 13: 'held region re-read and compared before unmap',
               40: 'camera fault injected', 41: 'storage fault injected', 42: 'multi-frame packet at storage', 43: 'device closed while started', 48: 'packet re-read after a slow append and compared', 45: 'camera changed its shape during the run', 46: 'second open of a device in use refused', 47: 'device open refused',
               20: 'writer slept on a full ring', 21: 'abort arrived while the source was blocked', 22: 'frame delivered after trigger', 24: 're-configured while the streamer was parked'}


def cfg(scenario, bound, **params):
    """bound: int n = preemption bound n (CHESS: switches at blocking points are free);
    'Dn' = delay bound n (every departure from the default scheduler, incl. early wake-ups, costs 1)"""
    model = 'preemption'
    if isinstance(bound, str):
        model, bound = 'delay', int(bound[1:])
    return {'scenario': scenario, 'bound': bound, 'model': model, 'params': params}


def run_cfgs(rep, exe, cfgs, budget_s, label, par=1):
    """par == 1: configurations one after the other, each explored by 16 worker processes;
    par > 1: `par` configurations at a time, one worker process each (many small configurations)."""
    import concurrent.futures as cf
    t_end = time.time() + budget_s
    tot = dict(executions=0, steps=0, points=0)
    per, samples, outcomes = [], [], 0
    events = {}
    state = {'exhaustive': True, 'edges': 0, 'skipped': 0}
    tmpd = tempfile.mkdtemp(prefix='vs-', dir=f'{C.V}/build')

    import queue
    cpus = queue.Queue()            # single-worker explorers each get their own core (the worker pins itself to --cpu-base)
    for k in range(max(par, 1)):
        cpus.put(k)

    def one(ic):
        i, c = ic
        left = t_end - time.time()
        if left < 2:
            return i, c, None, 'skipped'
        out = f'{tmpd}/{i}.json'
        cpu = cpus.get()
        cmd = [exe, '--scenario', c['scenario'], '--bound', str(c['bound']), '--jobs', str(C.NPROC if par == 1 else 1), '--cpu-base', str(cpu), '--deadline', f'{left:.0f}', '--out', out]
        if c['model'] == 'delay':
            cmd.append('--delay-bounding')
        for k, v in c['params'].items():
            cmd += ['--param', f'{k}={v}']
        try:
            p = subprocess.run(cmd, stdout=subprocess.PIPE, stderr=subprocess.PIPE, text=True)
        finally:
            cpus.put(cpu)
        if p.returncode not in (0, 1) or not os.path.exists(out):
            return i, c, None, f'explorer exited {p.returncode}: {p.stderr[-400:]}'
        d = json.load(open(out))
        os.unlink(out)
        return i, c, d, ''

    if par == 1:
        results = map(one, enumerate(cfgs))
    else:
        ex = cf.ThreadPoolExecutor(max_workers=par)
        results = ex.map(one, enumerate(cfgs))
    for i, c, d, err in results:
        if d is None:
            state['exhaustive'] = False
            if err == 'skipped':
                state['skipped'] += 1
            else:
                rep.violation(f"{rep.pid}:{c['scenario']}:engine-failure", err, {'engine': 'vsched', **c})
            continue
        tot['executions'] += d['executions']; tot['steps'] += d['steps']; tot['points'] += d['choice_points']
        outcomes += d['distinct_outcomes']
        state['edges'] = max(state['edges'], d['edges_covered'])
        state['exhaustive'] &= bool(d['exhaustive']) or bool(d['violations'])
        for e, n in enumerate(d['event_counts']):
            if n:
                events[EVENT_NAMES.get(e, f'event{e}')] = events.get(EVENT_NAMES.get(e, f'event{e}'), 0) + n
        if len(per) < 400:
            per.append({'scenario': c['scenario'], 'bound': c['bound'], 'bound_kind': c['model'], 'params': c['params'], 'executions': d['executions'], 'choice_points': d['choice_points'],
                        'max_choice_points_per_execution': d['max_choice_points'], 'distinct_outcomes': d['distinct_outcomes'], 'exhaustive': d['exhaustive'],
                        'status_counts': {k: v for k, v in d['status_counts'].items() if v}, 'wall_s': d['wall_s']})
        if d['unconfirmed']:
            rep.unconfirmed.append({'scenario': c['scenario'], 'params': c['params'], 'count': d['unconfirmed']})
        for v in d['violations']:
            clause = v['clause']
            fp = clause if clause[:1] == 'C' and clause[3:4] == ':' else f"{rep.pid}:{c['scenario']}:{clause}"
            if fp.startswith('C17:camera-buffer') or fp.startswith('C17:caller-buffer'):
                fp += ':' + c['scenario']               # which scenario: c17r is the re-configure-while-rendering race (known finding), c17t never re-configures while rendering
            if c['scenario'] == 'c08' and 'prog' in c['params']:
                fp += f":prog={c['params']['prog']}"   # a C08 violation is identified by the client program that produces it"
            pstr = ' '.join(f'--param {k}={x}' for k, x in c['params'].items())
            rep.violation(fp, f"{v['msg'][:600]} [scenario {c['scenario']} {c['params']} {c['model']} bound {c['bound']}, {v['deviations']} deviations, {v['count']} schedules]",
                          {'engine': 'vsched', 'exe': os.path.basename(exe), 'scenario': c['scenario'], 'params': c['params'], 'bound': c['bound'], 'bound_kind': c['model'], 'choices': v['choices'],
                           'status': v['status'], 'confirmed_by_replay': v['confirmed_by_replay'],
                           'replay_cmd': f"{exe} --scenario {c['scenario']} {pstr} --replay '{v['choices']}'"})
        if len(samples) < 10 and (i % max(1, len(cfgs) // 10) == 0):
            samples.append({'scenario': c['scenario'], 'params': c['params'], 'bound': c['bound'], 'bound_kind': c['model'], 'executions': d['executions'],
                            'schedules': 'default schedule (all choices 0) plus every placement of <= bound deviations'})
    try:
        os.rmdir(tmpd)
    except OSError:
        pass
    rep.coverage = {
        'states': tot['points'], 'transitions': tot['steps'], 'traces_validated_against_impl': tot['executions'],
        'executions': tot['executions'], 'configurations': len(cfgs), 'configurations_skipped_at_deadline': state['skipped'],
        'distinct_outcomes_summed_over_configurations': outcomes,
        'exhaustive': state['exhaustive'], 'repository_edges_covered': state['edges'],
        'rule': label + '; states = scheduling states at which more than one thread could be chosen, transitions = scheduling steps, every execution runs the real code',
        'events': events, 'bounds': {'configurations': per}, 'samples': samples or ['(none)'],
    }
    rep.assumptions = ['sequential consistency; scheduling points at every pthread/sleep operation of linux/platform.c and at every access to the registered racy flags (clang load/store callbacks)',
                       'virtual time: advances when all threads wait; early wake-up of a sleeper is one deviation',
                       'mock camera/storage devices honour the device-kit contract; ring sizes, frame counts and shapes as listed per configuration']


def build_rt(exe='rt_main'):
    b = C.make('engines/vsched/Makefile', 'cov')
    return f'{b}/{exe}'


# ---------------------------------------------------------------- per-property configuration tables
def c04_cfgs(tier):
    base = dict(exposure=4)
    q = [cfg('c04', 1, n=3, ringf=2, ringx=8, **base),
         cfg('c04', 1, n=3, ringf=1, ringx=1, **base),
         cfg('c04', 1, n=4, ringf=2, ringx=56, w=9, **base),            # 112-byte frames
         cfg('c04', 'D2', n=3, ringf=2, ringx=8, append_ms=25, **base), # storage slower than the camera: writer sleeps on a full ring
         cfg('c04', 1, n=3, ringf=2, ringx=8, exposure=25),             # camera slower than the sink poll
         cfg('c04', 'D2', n=3, ringf=3, ringx=8, write_delay=6, **base),
         cfg('c04', 1, n=3, ringf=2, ringx=8, client=1, **base),        # monitoring client, fast
         cfg('c04', 'D2', n=3, ringf=2, ringx=8, client=2, **base),     # slow client
         cfg('c04', 'D2', n=3, ringf=3, ringx=8, client=4, **base),     # client holds regions
         cfg('c04', 'D2', n=2, n1=3, streams=2, ringf=2, ringx=8, **base),
         cfg('c04', 2, n=2, ringf=1, ringx=1, **base),
         cfg('c04', 'D3', n=3, ringf=2, ringx=8, **base),
         cfg('c04', 1, n=4, ringf=1, ringx=8, exposure=0),                  # camera without exposure wait
         cfg('c04', 'D2', n=5, ringf=3, ringx=8, append_ms=25, client=1, **base),  # slow storage + fast monitor: readers in different laps
         cfg('c04', 'D2', n=5, ringf=2, ringx=56, append_ms=25, client=3, **base),
         # the camera's frames grow during the run: a frame larger than what is left behind the head and in front of the drained reader (forced wrap)
         cfg('c04', 'D2', n=4, ringf=2, ringx=8, reshape_at=2, reshape_w=64, reshape_h=1, **base), cfg('c04', 1, n=4, ringf=2, ringx=8, reshape_at=1, reshape_w=64, reshape_h=1, **base),
         cfg('c04', 'D2', n=5, ringf=2, ringx=8, reshape_at=2, reshape_w=64, reshape_h=1, client=1, **base), cfg('c04', 'D2', n=4, ringf=2, ringx=8, w=64, reshape_at=2, reshape_w=3, reshape_h=1, **base),
         # the camera delivers a smaller image than the shape it announced before the frame (the runtime reserved the announced size): every
         # frame still reaches storage; the size-field clause of C05 is not judged for such a camera (packet_checks=0)
         cfg('c04', 'D2', n=4, ringf=3, ringx=8, w=20, h=1, reshape_at=1, reshape_mode=1, reshape_w=3, reshape_h=1, packet_checks=0, **base),
         cfg('c04', 1, n=5, ringf=2, ringx=8, w=20, h=1, reshape_at=2, reshape_mode=1, reshape_w=3, reshape_h=1, packet_checks=0, **base),
         # an ordinary acquisition after one whose storage failed (leftover worker state must not cost it frames)
         cfg('c06', 'D1', ends='ss', prog='z', fault_first=0, append_ms=12, n=3, ringf=2, ringx=8, exposure=4, **{'from': 1}),
         cfg('c06', 'D2', ends='ss', prog='z', fault_first=1, n=3, ringf=2, ringx=8, exposure=4, **{'from': 1}),
         # the real devices of the common driver in the loop: simulated camera (with its streamer thread) + raw file writer
         cfg('c04real', 1, n=3, ringf=2, ringx=8), cfg('c04real', 'D2', n=4, ringf=1, ringx=1), cfg('c04real', 'D2', n=3, trigger=1),
         cfg('c04real', 'D2', n=3, abort_instead=1)]
    if tier == 'quick':
        return q
    t = list(q)
    t += [cfg('c04', 2, n=3, ringf=2, ringx=8, **base), cfg('c04', 2, n=3, ringf=1, ringx=1, **base),
          cfg('c04', 'D3', n=2, ringf=1, ringx=8, append_ms=25, **base), cfg('c04', 2, n=3, ringf=2, ringx=8, client=1, **base),
          cfg('c04', 'D3', n=4, ringf=3, ringx=8, client=4, **base), cfg('c04', 'D3', n=2, n1=3, streams=2, ringf=2, ringx=8, **base),
          cfg('c04', 'D3', n=4, ringf=2, ringx=8, write_delay=6, **base), cfg('c04', 'D3', n=3, ringf=2, ringx=8, client=3, **base),
          cfg('c04', 'D4', n=3, ringf=2, ringx=8, **base), cfg('c04', 3, n=2, ringf=1, ringx=1, **base),
          cfg('c04real', 1, n=4, ringf=1, ringx=1), cfg('c04real', 'D3', n=3, ringf=2, ringx=8), cfg('c04real', 'D3', n=3, trigger=1), cfg('c04real', 2, n=2, ringf=2, ringx=8),
          cfg('c04real', 'D3', n=3, abort_instead=1), cfg('c04real', 'D2', n=3, camera='simulated: radial sin', storage='tiff')]
    return t


def c05_cfgs(tier):
    out = []
    types = range(8)
    ws = range(1, 10) if tier == 'thorough' else (1, 2, 3, 5, 8, 9)
    hs = (1, 2, 3) if tier == 'thorough' else (1, 3)
    for t in types:
        for w in ws:
            for h in hs:
                out.append(cfg('c04', 0, n=3, ringf=2, ringx=8, w=w, h=h, type=t, exposure=4, client=3))
    for (w, h) in ((1, 1), (3, 1), (5, 3), (2, 2), (7, 1), (3, 3)):
        for t in ((0, 1, 3) if tier == 'quick' else (0, 1, 2, 3, 5, 6, 7)):
            out.append(cfg('c10', 0, avg=2, n=4, ringf=3, ringx=8, fringf=2, fringx=8, w=w, h=h, type=t, exposure=4, client=3, prefill=0x42))
    # the camera's shape changes during the run, between two frames and while a frame call is pending (each frame carries the shape delivered with it)
    out += [cfg('c04', 1, n=4, ringf=3, ringx=8, w=3, h=2, type=t, exposure=4, reshape_at=k, reshape_mode=m, reshape_w=2, reshape_h=3) for t in (0, 1) for k in (1, 2) for m in (0, 1)]
    out += [cfg('c04', 1, n=4, ringf=3, ringx=8, w=5, h=3, type=0, exposure=4, reshape_at=2, reshape_mode=1, reshape_w=3, reshape_h=3, client=1),
            cfg('c04', 1, n=4, ringf=3, ringx=8, w=3, h=3, type=0, exposure=4, reshape_at=2, reshape_mode=0, reshape_w=7, reshape_h=3, client=3)]
    # the camera's frame call fails mid-acquisition: whatever the error path leaves in the ring, storage and client only ever see whole frames
    out += [cfg('c09', 'D1', camfail=k, end_abort=e, ringf=2, ringx=8, exposure=4, n=3, client_polls=c) for k in (0, 1, 2) for e in (0, 1) for c in (0, 1) if e == 1 or c == 0]   # (a client that has joined as a reader and then waits in stop without draining is the known finding c06u: not legal use)
    # averaging switched on/off by a re-configuration during the acquisition (source and filter both write the sink ring)
    out += [cfg('c08', 'D2', prog=p) for p in ('FswAS', 'FswAwS', 'AswFwS', 'FsAS')] + [cfg('c08', 1, prog='FswAS')]
    out += [cfg('c04', 1, n=4, ringf=3, ringx=8, w=5, h=1, type=0, exposure=4, client=3),
            cfg('c04', 1, n=4, ringf=3, ringx=40, w=3, h=3, type=1, exposure=4, client=3)]
    # write delay: the sink hands storage only the frames older than the delay and releases exactly those - the split point is a frame boundary for every image size
    out += [cfg('c04', 'D1', n=4, ringf=3, ringx=8, w=w, h=h, type=t, exposure=4, write_delay=d, client=c) for (w, h) in ((1, 1), (2, 1), (3, 1), (5, 1), (7, 1), (3, 3), (9, 1)) for t in (0, 1) for d in (3, 6) for c in (0, 3)]
    if tier == 'thorough':
        out += [cfg('c04', 2, n=3, ringf=2, ringx=8, w=5, h=1, type=0, exposure=4, client=3)]
        out += [cfg('c04', 'D2', n=4, ringf=3, ringx=8, w=w, h=1, type=t, exposure=4, write_delay=d, client=3) for w in (3, 5) for t in (0, 1) for d in (3, 6)]
    return out


def c06_cfgs(tier):
    base = dict(exposure=4, n=3, ringf=2, ringx=8)
    progs = ['m', 'mm', 'p', 'pm', 'z', 'hm', 'mH', 'wm', 'w', 'ww']
    q = [cfg('c06', 'D1', ends=e, prog=p, **base) for e in ('ss', 'as', 'sa') for p in progs]
    q += [cfg('c06', 'D2', ends='ss', prog='mm', **base), cfg('c06', 'D2', ends='as', prog='pm', **base), cfg('c06', 'D2', ends='ss', prog='m', **{**base, 'from': 1}),
          cfg('c06', 'D2', ends='as', prog='mH', **base), cfg('c06', 'D2', ends='sa', prog='hm', **base), cfg('c06', 1, ends='as', prog='m', **{**base, 'n': 2}),
          cfg('c06u', 'D1', ends='s', prog='m', undrained_stop=1, **base)]
    # a client that falls behind across a ring wrap and releases one frame per poll (3-frame ring, 5 frames)
    lag = dict(exposure=4, n=5, ringf=3, ringx=8)
    q += [cfg('c06', 'D1', ends=e, prog=p, **base) for e in ('as', 'aa', 'asa') for p in ('mL', 'L', 'wmL')] + [cfg('c06', 'D2', ends='as', prog='mL', **base)]
    # ... and hands the stale region back only some frames into the next acquisition: the new acquisition's writer works next to memory the client still holds
    q += [cfg('c06', 'D1', ends=e, prog=p, late_ms=l, **base) for e in ('as', 'aa') for p in ('mL', 'L', 'wmL') for l in (6, 11)] + [cfg('c06', 'D2', ends='as', prog='mL', late_ms=6, **base)]
    q += [cfg('c06', 'D1', ends='ss', prog=p, **lag) for p in ('wp', 'wwp', 'wpp', 'pwp', 'wwpp')] + [cfg('c06', 'D2', ends='s', prog='wwp', **lag), cfg('c06', 'D2', ends='sa', prog='wpp', **lag)]
    # the camera's frames grow during the acquisition (forced wrap of the ring under a caught-up monitor)
    q += [cfg('c06', 'D1', ends=e, prog=p, reshape_at=k, reshape_w=64, reshape_h=1, **{**base, 'n': 4}) for e in ('s', 'a') for p in ('m', 'mm', 'wm', 'p') for k in (1, 2)]
    # two streams, both monitored
    q += [cfg('c06', 'D1', ends=e, prog=p, streams=2, n1=3, **{**base, 'n': 2}) for e in ('ss', 'as') for p in ('m', 'pm')]
    # the first acquisition's storage fails with frames still queued; the client first maps during the second acquisition
    q += [cfg('c06', 'D1', ends=e, prog=p, fault_first=k, append_ms=12, **{**base, 'from': 1}) for e in ('ss', 'as') for p in ('m', 'wm') for k in (0, 1)]
    if tier == 'quick':
        return q
    t = list(q)
    import itertools
    ops = 'mpzhw'
    allp = [''.join(x) for k in (1, 2, 3) for x in itertools.product(ops, repeat=k)]
    t += [cfg('c06', 'D1', ends=e, prog=p, **base) for e in ('sss', 'asa', 'saa', 'aas') for p in allp]
    t += [cfg('c06', 'D2', ends=e, prog=p, **base) for e in ('ss', 'as', 'sa', 'aa') for p in ('mm', 'pm', 'hm', 'mH', 'zm', 'pp', 'wm')]
    t += [cfg('c06', 'D3', ends='as', prog='m', **base), cfg('c06', 'D3', ends='ss', prog='p', **base), cfg('c06', 1, ends='ss', prog='m', **{**base, 'n': 2}),
          cfg('c06', 1, ends='as', prog='mH', **{**base, 'n': 2})]
    return t


def c07_cfgs(tier):
    base = dict(exposure=4, ringf=2, ringx=8)
    full = {**base, 'ringf': 1, 'ringx': 1, 'append_ms': 40}
    situations = [dict(n=1000000, variant=0, **base),                 # infinite acquisition, abort from a controller thread at every point
                  dict(n=3, variant=0, **base),                       # finite: possibly already finished
                  dict(n=1000000, variant=0, trigger=1, **base),      # camera waiting for a software trigger
                  dict(n=1000000, variant=0, **full),                 # ring full, source asleep
                  dict(n=1000000, variant=0, avg=2, **base),          # averaging active
                  dict(n=1000000, variant=0, avg=2, trigger=1, **base),   # averaging active and the camera waiting for a software trigger (the source feeds the filter ring, not the sink ring)
                  dict(n=1000000, variant=1, prog='mH', **base),      # client holds a mapped region across its own abort
                  dict(n=1000000, variant=1, prog='mL', **base),      # ... and hands it back only after the follow-up acquisition has started
                  dict(n=1000000, variant=1, prog='mL', late_ms=6, **base),   # ... a frame into it: the follow-up's writer runs next to the memory the client still holds
                  dict(n=1000000, variant=1, prog='wL', late_ms=11, **base),
                  dict(n=1000000, variant=1, prog='mw', exposure=4, ringf=3, ringx=8),   # the monitor lags: the writer has wrapped into the next lap behind it when the abort comes
                  dict(n=1000000, variant=1, prog='pw', exposure=4, ringf=3, ringx=8),
                  dict(n=1000000, variant=1, prog='c', **base),       # live re-configuration (same devices) before the abort
                  dict(n=1000000, variant=1, prog='wc', trigger=1, **base),   # ... while the camera waits for a software trigger
                  dict(n=3, variant=0, ctl_stop=1, **base),           # stop from another thread on a finite acquisition
                  dict(n=1000000, variant=2, **base),                 # two concurrent aborts
                  dict(n=1000000, variant=0, client_polls=1, **base)]  # client polling while another thread aborts
    q = [cfg('c07', 'D2', **sit) for sit in situations]
    # averaging switched off by a live re-configuration (the source waits for the filter to give up its accumulator), then stop / abort
    q += [cfg('c08', 'D2', prog=p) for p in ('FswAa', 'FswAS', 'FsAa', 'FswAwa')]
    q += [cfg('c07', 1, **situations[0]), cfg('c07', 1, **situations[3])]
    if tier == 'quick':
        return q
    t = list(q)
    t += [cfg('c07', 'D3', **sit) for sit in situations]
    t += [cfg('c07', 1, **sit) for sit in situations[1:5]]
    t += [cfg('c07', 2, **situations[3]), cfg('c07', 'D2', n=1000000, variant=0, streams=2, **base), cfg('c07', 'D4', **situations[0])]
    return t


def c09_cfgs(tier):
    base = dict(exposure=4, n=3)
    q = []
    for k in (0, 1, 2):
        for end in (0, 1):
            q.append(cfg('c09', 'D2', camfail=k, end_abort=end, ringf=2, ringx=8, **base))
            q.append(cfg('c09', 'D2', storefail=k, end_abort=end, ringf=2, ringx=8, **base))
    q += [cfg('c09', 'D2', storefail=0, end_abort=0, ringf=1, ringx=1, append_ms=30, **base),   # source asleep on a full ring when the sink dies
          cfg('c09', 'D2', storefail=1, end_abort=0, ringf=1, ringx=1, append_ms=30, **base),
          cfg('c09', 1, storefail=0, end_abort=0, ringf=2, ringx=8, **{**base, 'n': 2}),
          cfg('c09', 1, camfail=1, end_abort=0, ringf=2, ringx=8, **{**base, 'n': 2})]
    # the camera fails to report its shape (the call the source makes before every frame)
    for k in (0, 1, 2):
        for end in (0, 1):
            q.append(cfg('c09', 'D2', shapefail=k, end_abort=end, ringf=2, ringx=8, **base))
    # averaging: two rings in series; slow storage fails while the filter is asleep on the full sink ring and the source on the full filter ring
    for end in (0, 1):
        q.append(cfg('c09', 'D2', storefail=0, end_abort=end, avg=2, ringf=1, ringx=1, fringf=1, fringx=1, append_ms=60, wait_ms=40, exposure=4, n=12))
        q.append(cfg('c09', 'D1', storefail=1, end_abort=end, avg=2, ringf=1, ringx=1, fringf=1, fringx=1, append_ms=60, wait_ms=40, exposure=4, n=12))
    q.append(cfg('c09', 'D2', camfail=3, end_abort=0, avg=2, ringf=2, ringx=8, fringf=2, fringx=8, exposure=4, n=8))
    if tier == 'quick':
        return q
    t = list(q)
    for k in (0, 1, 2, 3):
        for end in (0, 1):
            for ring in ((2, 8), (1, 1), (6, 8)):
                t.append(cfg('c09', 'D2', camfail=k, end_abort=end, ringf=ring[0], ringx=ring[1], **base))
                t.append(cfg('c09', 'D2', storefail=k, end_abort=end, ringf=ring[0], ringx=ring[1], **base))
                t.append(cfg('c09', 'D2', storefail=k, end_abort=end, ringf=ring[0], ringx=ring[1], append_ms=30, **base))
    t += [cfg('c09', 'D3', storefail=0, end_abort=0, ringf=1, ringx=1, append_ms=30, **base), cfg('c09', 'D3', camfail=1, end_abort=0, ringf=2, ringx=8, **base),
          cfg('c09', 'D3', storefail=1, end_abort=1, ringf=2, ringx=8, **base),
          cfg('c09', 'D2', camfail=1, end_abort=0, ringf=2, ringx=8, client_polls=1, **base),
          cfg('c09', 1, storefail=1, end_abort=0, ringf=2, ringx=8, **base), cfg('c09', 1, camfail=2, end_abort=1, ringf=2, ringx=8, **base)]
    return t


def c10_cfgs(tier):
    base = dict(exposure=4, prefill=0x42, ringf=2, ringx=8, fringf=2, fringx=8)
    q = [cfg('c10', 1, avg=2, n=n, **base) for n in (2, 3, 4)]
    q += [cfg('c10', 1, avg=2, n=4, **{**base, 'ringf': 3, 'fringf': 3}), cfg('c10', 'D2', avg=3, n=6, **{**base, 'fringf': 3})]   # the input ring wraps between the filter's last poll and the stop signal
    q += [cfg('c10', 0, avg=2, n=5, type=t, **base) for t in (0, 1, 2, 3, 5, 6, 7)]
    # the source's last frame (and its stop signal) arrive exactly when the filter polls: exposure 5 or 10 ms against the filter's 10 ms period
    q += [cfg('c10', b, avg=2, n=n, **{**base, 'exposure': e}) for (e, n) in ((5, 4), (10, 2), (5, 2), (10, 4)) for b in (1, 'D2')] + [cfg('c10', 2, avg=2, n=2, **{**base, 'exposure': 10})]
    q += [cfg('c10', 1, avg=2, n=4, **{**base, 'exposure': 0, 'fringf': 1}),   # camera without exposure wait: the source outruns the filter thread
          cfg('c10', 0, avg=3, n=7, w=2, h=2, **base), cfg('c10', 0, avg=2, n=6, **{**base, 'prefill': 0}), cfg('c10', 0, avg=2, n=4, client=1, **base)]
    # larger windows (4, 5, 8) around their multiples, on 2- and 3-frame rings, signed and unsigned samples
    q += [cfg('c10', b, avg=k, n=n, type=t, **base) for k in (4, 5) for n in (k, k + 1, 2 * k, 2 * k + 1) for (b, t) in ((0, 1), ('D1', 3))]
    q += [cfg('c10', 'D1', avg=k, n=n, w=3, h=1, type=2, **{**base, 'ringf': 3, 'fringf': 3}) for (k, n) in ((4, 9), (5, 10), (8, 17))] + [cfg('c10', 'D2', avg=4, n=8, **base)]
    # averaging switched off / on by a live re-configuration (the source asks the filter to reset its accumulator and then writes the sink ring itself)
    q += [cfg('c08', 'D2', prog=p) for p in ('FswAS', 'FswAwS', 'FsAS', 'AswFwS')]
    q += [cfg('c10', 'D1', avg=2, n=4, streams=2, n1=5, **base)]   # two averaged streams (delay bounding: preemption bound 1 on six worker threads does not finish)
    if tier == 'quick':
        return q
    t = list(q)
    for k in (2, 3):
        for n in (k, k + 1, 2 * k, 2 * k + 1):
            for (w, h) in ((1, 1), (3, 1), (2, 2)):
                for ty in (0, 1, 2, 3, 5, 6, 7):
                    t.append(cfg('c10', 0, avg=k, n=n, w=w, h=h, type=ty, **base))
            t.append(cfg('c10', 1, avg=k, n=n, **{**base, 'ringf': 3, 'fringf': 3}))
    t += [cfg('c10', 2, avg=2, n=3, **base), cfg('c10', 2, avg=2, n=4, **base), cfg('c10', 1, avg=2, n=4, client=1, **base), cfg('c10', 1, avg=2, n=4, append_ms=25, **base)]
    return t


def c08_programs(depth):
    import itertools
    alpha = 'ABCs0tmuSawX'
    out = []
    for k in range(1, depth + 1):
        for t in itertools.product(alpha, repeat=k):
            p = ''.join(t)
            if 'A' not in p and 'B' not in p and 'C' not in p:
                continue          # no device is ever opened
            if 's' not in p and k > 2:
                continue          # nothing runs: covered by the shorter prefixes
            if 'uu' in p or 'ww' in p or 'mm' in p or 'tt' in p:
                continue
            if 'u' in p and 'm' not in p[:p.index('u')]:
                continue
            out.append(p)
    return out


def c08_cfgs(tier):
    if tier == 'thorough':   # a superset of the quick tier
        seen, out = set(), []
        for c in c08_cfgs('quick') + _c08_thorough_only():
            k = (c['scenario'], c['bound'], c['model'], tuple(sorted(c['params'].items())))
            if k not in seen:
                seen.add(k); out.append(c)
        return out
    if tier == 'quick':
        progs = c08_programs(3) + ['AsSBsS', 'AsBsS', 'AsAS', 'AsaXAsS', 'AsmSu', 'AssS', 'AsXAs', 'ABsSa', 'AsSsa', 'Asmau', 'AstS', 'AsCS', 'AsDS', 'AsCsS', 'AsDsS', 'CsAS', 'AswCS',
                                   'FsAS', 'FswAS', 'AsFS', 'AswFwS', 'FsS', 'AsRS', 'AsRsS', 'RsS', 'AsRwsS', 'AsRa',
                                   'EswgS', 'Eswwg', 'Esga', 'EswgsS', 'EswSAsS',
                                   'GsS', 'Gsa', 'GsgS', 'GsAsS', 'GswAsS', 'Gs', 'HsS', 'Hsa', 'HsgS', 'HsAsS', 'Hs',
                                   'Hss', 'HssS', 'HsAss', 'EswsS', 'Eswss',
                                   'AOAsS', 'AsSOAsS', 'AsSOsS', 'AO', 'AsSO', 'AOsS', 'AsOAsS',
                                   'As0B', 'Bs0A', 'As0S', 'As0a', 'As0sS', 'As0AsS',
                                   'KsS', 'Ksa', 'KswgS', 'KswS', 'Ksw', 'KswAsS', 'JsS', 'Jsa', 'Js', 'JswS', 'Js2sS', 'TsS', 'AsTS', 'AsTsS', 'TsAsS', 'AswTa']
        c = [cfg('c08', 'D1', prog=p) for p in progs]
        c += [cfg('c08', 0, prog=p) for p in ('AsS', 'Asa', 'AsBS', 'AsAS', 'AsSsS', 'AsaAsS')]
        # the client acts at the very instant a finite acquisition ends by itself (2 frames of 4.5 ms; 'w' waits 9 ms): the workers' own
        # wind-down (flags, camera stop, storage stop) races the client's next call
        c += [cfg('c08', b, prog=p, exposure_us=4500) for p in ('AswB', 'AswBsS', 'AswC', 'AswD', 'Asw0', 'AswX', 'AswsS', 'AswA', 'Aswa', 'AswS', 'Aswg') for b in ('D2', 1)]
        # ... and at the instant the filter and sink workers (10 ms polling period) notice the end and the source finishes its wind-down
        c += [cfg('c08', b, prog=p, wait_us=10000) for p in ('AswB', 'AswBsS', 'AswC', 'AswD', 'Asw0', 'AswX', 'AswsS', 'AswA', 'AswAsS', 'AswAS', 'AswAa') for b in ('D2', 1)]
        c += [cfg('c08', 'D2', prog=p) for p in ('AsS', 'Asa', 'AsBS', 'AsAS', 'AsCS', 'AsDS', 'AsXAsS', 'AsmSu', '2sa', '2sSA', 'FswAS', 'AswFwS', 'AsRsS')]
        return c


def _c08_thorough_only():
    progs = c08_programs(4) + [p + q for p in ('AsS', 'Asa', 'AsB') for q in ('BsS', 'XAs', 'sS', 'AsS', 'as')]
    c = [cfg('c08', 'D1', prog=p) for p in progs]
    c += [cfg('c08', 'D2', prog=p) for p in c08_programs(3)]
    c += [cfg('c08', 0, prog=p) for p in c08_programs(2) + ['AsS', 'Asa', 'AsBS', 'AsAS', 'AsSsS', 'AsaAsS', 'AsBsS', 'AsXAsS']]
    c += [cfg('c08', 'D2', prog=p) for p in ('2sa', '2sS', '2sSA', '2saBsS')]
    return c


def c18_cfgs(tier):
    import itertools
    out = []
    ctls = ['s', 'ws', 'ts', 'tts', 'wst', 'tws', 'twts', 't', 'tt', 'st', 'ss']
    for trig in (0, 1):
        for frames in (1, 2):
            for ctl in ctls:
                if not trig and 't' in ctl and len(ctl) > 2:
                    continue
                out.append(cfg('c18', 'D2', trigger=trig, frames=frames, ctl=ctl))
    out += [cfg('c18', 1, trigger=1, frames=1, ctl='ts'), cfg('c18', 1, trigger=0, frames=2, ctl='ws'), cfg('c18', 'D3', trigger=1, frames=2, ctl='tts'),
            cfg('c18', 'D2', trigger=1, frames=2, ctl='t', ctl2='tws'), cfg('c18', 'D2', trigger=1, frames=1, ctl='s', ctl2='twts'),
            # a frame call that fails (buffer too small), then re-configure and restart: the count restarts, one streamer only
            cfg('c18', 'D2', trigger=0, frames=2, ctl='w', failfirst=1), cfg('c18', 'D2', trigger=0, frames=2, ctl='ws', failfirst=1), cfg('c18', 'D2', trigger=1, frames=2, ctl='tw', failfirst=1, ctl2='tws'),
            cfg('c18', 'D1', trigger=0, frames=3, ctl='www', failfirst=1, ctl2='wwws'), cfg('c18', 'D2', trigger=0, frames=2, ctl='www', failfirst=1, ctl2='wws'),
            # a long first run, then a restart: the count starts over whatever the new streamer thread reads first
            cfg('c18', 'D2', trigger=0, frames=3, ctl='wwws', ctl2='ws'), cfg('c18', 'D2', trigger=0, frames=4, ctl='wwwws', ctl2='s'), cfg('c18', 1, trigger=0, frames=3, ctl='wwws', ctl2='ws'),
            cfg('c18', 'D2', trigger=1, frames=3, ctl='twtwtws', ctl2='tws'),
            # the software trigger switched on by a live set, long after / right after a trigger that was fired while it was off
            cfg('c18', 'D2', trigger=0, frames=6, ctl='twwwEwww', restart=0), cfg('c18', 1, trigger=0, frames=6, ctl='twwwEwww', restart=0), cfg('c18', 'D2', trigger=0, frames=6, ctl='wtEwwtww', restart=0),
            # three preemptions on the shortest triggered scenarios (a wake-up lost between the streamer's check and its wait needs three)
            cfg('c18', 3, trigger=1, frames=1, ctl='s', restart=0), cfg('c18', 3, trigger=1, frames=1, ctl='ws', restart=0), cfg('c18', 3, trigger=0, frames=1, ctl='s', restart=0),
            # a pending frame call fails because the camera was re-configured to a larger image meanwhile: later frame calls and stop still return
            cfg('c17r', 'D2', w=8, h=8, w2=64, h2=64, type2=1, kind=0, frames=2), cfg('c17r', 'D2', w=4, h=4, w2=32, h2=32, kind=2, type2=0, trigger=1, frames=2), cfg('c17r', 1, w=8, h=8, w2=64, h2=64, kind=2, frames=2)]
    if tier == 'quick':
        return out
    t = list(out)
    allc = [''.join(x) for k in (1, 2, 3) for x in itertools.product('tsw', repeat=k)]
    for trig in (0, 1):
        for frames in (1, 2, 3):
            for ctl in allc:
                t.append(cfg('c18', 'D2', trigger=trig, frames=frames, ctl=ctl))
    t += [cfg('c18', 'D3', trigger=trig, frames=frames, ctl=ctl) for trig in (0, 1) for frames in (1, 2) for ctl in ('s', 'ts', 'tts', 'wst', 'tws')]
    t += [cfg('c18', 2, trigger=1, frames=1, ctl='ts'), cfg('c18', 2, trigger=0, frames=1, ctl='s'), cfg('c18', 'D4', trigger=1, frames=1, ctl='ts')]
    return t


TABLE = {
    'C18': (c18_cfgs, 'caller get_frame x 1-3, controller sequences over {trigger, stop, wait}, trigger on/off, one restart, all schedules within the bound on the real simulated camera through the HAL; oracle: ids strictly increasing, count restarts, frames <= triggers of this run, stop unblocks (no deadlock)'),
    'C08': (c08_cfgs, 'all well-formed client programs up to the depth over {configure A/B/none, start, trigger, map, unmap, stop, abort, wait, shutdown+init} x schedules; oracle: device life-cycle automaton fed by the recording driver (page-protected devices), state reports'),
    'C04': (c04_cfgs, 'configurations x all schedules with <= bound deviations of start;[client polls];stop on the real runtime; oracle: storage log == frames delivered by the camera'),
    'C05': (c05_cfgs, 'shape sweep (all residues of the image size mod 8) x schedules; oracle: every packet at storage and every region mapped by the client is a chain of whole 8-byte aligned frames with the exact padded size and the camera\'s shape'),
    'C06': (c06_cfgs, 'client programs x acquisition sequences ended by stop/abort x schedules; oracle: consecutive ids, this acquisition\'s pixels, nothing delivered after stop/abort, map/unmap always succeed, storage unaffected'),
    'C07': (c07_cfgs, 'abort (or stop) from a controller thread runnable at every point x situations x schedules; oracle: returns, workers joined, devices stopped, Armed, storage holds a prefix; follow-up acquisition complete'),
    'C09': (c09_cfgs, 'fault site x fault kind x ring x end call x schedules; oracle: nothing appended after the failure, camera stopped, stop/abort return, not Running, fault-free follow-up acquisition complete'),
    'C10': (c10_cfgs, 'window x frame count x sample type x shape x dirty rings x schedules; oracle: one f32 frame per window with the exact mean and the first input\'s id, at most one trailing frame'),
}


def _heavy(c):
    return (c['model'] == 'delay' and c['bound'] >= 2) or (c['model'] == 'preemption' and c['bound'] >= 1)


def _merge(a, b):
    out = dict(a)
    for k in ('states', 'transitions', 'traces_validated_against_impl', 'executions', 'configurations', 'configurations_skipped_at_deadline', 'distinct_outcomes_summed_over_configurations'):
        out[k] = a.get(k, 0) + b.get(k, 0)
    out['exhaustive'] = a['exhaustive'] and b['exhaustive']
    out['repository_edges_covered'] = max(a.get('repository_edges_covered', 0), b.get('repository_edges_covered', 0))
    ev = dict(a.get('events', {}))
    for k, v in b.get('events', {}).items():
        ev[k] = ev.get(k, 0) + v
    out['events'] = ev
    out['bounds'] = {'configurations': (b['bounds']['configurations'] + a['bounds']['configurations'])[:400]}
    out['samples'] = (b['samples'] + a['samples'])[:10]
    return out


def run(pid, tier):
    rep = C.Report(pid, tier)
    exe = build_rt('simcam_main' if pid == 'C18' else 'rt_main')
    fn, label = TABLE[pid]
    budget = C.deadline_s(1800 if tier == 'thorough' else 600)
    t0 = time.time()
    cfgs = fn(tier)
    if pid in ('C08', 'C05', 'C18'):
        # many small configurations: one worker each, 16 at a time; the few deep ones afterwards with 16 workers each
        light = [c for c in cfgs if not _heavy(c)]
        heavy = [c for c in cfgs if _heavy(c)]
        run_cfgs(rep, exe, light, budget * 0.5, label, par=C.NPROC)
        cov_l = rep.coverage
        run_cfgs(rep, exe, heavy, max(5.0, budget - (time.time() - t0)), label, par=1)
        rep.coverage = _merge(cov_l, rep.coverage)
    else:
        run_cfgs(rep, exe, cfgs, budget, label, par=1)
    rep.finish()
