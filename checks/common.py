"""Shared plumbing for every check: build from $REPO's working tree, evidence files, known findings,
VIOLATION / KNOWN-FINDING lines and the exit-status contract."""
import hashlib, json, os, re, subprocess, sys, time

V = os.environ.get('VERIF_ROOT') or os.path.dirname(os.path.dirname(os.path.abspath(__file__)))   # /verif, or a snapshot of it (vp run)
os.environ['VERIF_ROOT'] = V   # the executables put their scratch files under $VERIF_ROOT/build
REPO = os.environ.get('REPO', '/repo')
NPROC = int(os.environ.get('VERIF_JOBS', '16'))


def rkey(repo=None):
    return hashlib.md5(((repo or REPO) + '\n').encode()).hexdigest()[:8]


def bdir(flavour, repo=None):
    return f'{V}/build/{flavour}-{rkey(repo)}'


def make(makefile, flavour, targets=('all',), extra=()):
    """(re)build from the current working tree of REPO; make's dependency tracking keeps it incremental"""
    cmd = ['make', '-s', '-j', str(NPROC), '-f', f'{V}/{makefile}', f'V={V}', f'REPO={REPO}', f'FLAVOUR={flavour}', *extra, *targets]
    p = subprocess.run(cmd, stdout=subprocess.PIPE, stderr=subprocess.STDOUT, text=True)
    if p.returncode != 0:
        sys.stdout.write(p.stdout[-6000:])
        print(f'BUILD-FAILED ({" ".join(cmd)})')
        sys.exit(2)
    return bdir(flavour)


def known_findings():
    """known_findings.txt: lines 'finding: property=<id> fingerprint=<fp> <what fails>' and
    'fixed: property=<id> <commit> fingerprint=<fp> <what failed>'.  Only 'finding' lines suppress."""
    out = {}
    p = f'{V}/known_findings.txt'
    if os.path.exists(p):
        for line in open(p):
            line = line.strip()
            m = re.match(r'finding:\s+property=(\S+)\s+fingerprint=(\S+)\s+(.*)', line)
            if m:
                out[(m.group(1), m.group(2))] = m.group(3)
    return out


class Report:
    """Collects violations (each with a fingerprint and a replay file) and what the run covered."""

    def __init__(self, pid, tier, technique_note=''):
        self.pid, self.tier = pid, tier
        self.t0 = time.time()
        self.seed = int(os.environ.get('VERIF_SEED', '0') or 0)
        self.violations = []  # dicts: fingerprint, what, replay(dict)
        self.coverage = {}
        self.assumptions = []
        self.unconfirmed = []

    def violation(self, fingerprint, what, replay):
        for v in self.violations:
            if v['fingerprint'] == fingerprint:
                v['count'] = v.get('count', 1) + 1
                return
        self.violations.append({'fingerprint': fingerprint, 'what': what, 'replay': replay, 'count': 1})

    def finish(self, level='model_checking'):
        kf = known_findings()
        os.makedirs(f'{V}/replays/{self.pid}', exist_ok=True)
        os.makedirs(f'{V}/evidence', exist_ok=True)
        new, known = [], []
        for v in self.violations:
            # a scenario shared between two properties can run into the other property's listed finding (fingerprints name their
            # property): it is then that property's known finding, not a violation of this one
            fp = v['fingerprint']
            owner = fp[:3] if re.match(r'C\d\d:', fp) else self.pid
            key = (owner, fp)
            v['owner'] = owner
            h = hashlib.sha1(v['fingerprint'].encode()).hexdigest()[:12]
            path = f'{V}/replays/{self.pid}/{h}.json'
            with open(path, 'w') as f:
                json.dump({'property': self.pid, 'fingerprint': v['fingerprint'], 'what': v['what'], **v['replay']}, f, indent=1)
            v['replay_path'] = path
            (known if key in kf else new).append(v)
        cov = dict(self.coverage)
        cov.setdefault('samples', ['(none)'])
        ev = {
            'property_id': self.pid, 'tier': self.tier, 'seed': self.seed, 'level': level,
            'coverage': cov, 'assumptions': self.assumptions,
            'wall_s': round(time.time() - self.t0, 3),
            'violations': len(new),
            'known_findings_reported': [v['fingerprint'] for v in known],
            'violation_fingerprints': [v['fingerprint'] for v in new],
            'unconfirmed': self.unconfirmed,
            'repo': REPO,
        }
        with open(f'{V}/evidence/{self.pid}.json', 'w') as f:
            json.dump(ev, f, indent=1)
        for v in known:
            print(f"KNOWN-FINDING: property={v['owner']} {v['fingerprint']} {v['what']}")
        for v in new:
            print(f"VIOLATION property={self.pid} replay={v['replay_path']}")
            print(f"  {v['fingerprint']}: {v['what']}")
        c = self.coverage
        print(f"[{self.pid} {self.tier}] states={c.get('states')} transitions={c.get('transitions')} "
              f"executions={c.get('traces_validated_against_impl')} exhaustive={c.get('exhaustive')} "
              f"violations={len(new)} known={len(known)} wall={ev['wall_s']}s")
        sys.exit(1 if new else 0)


def deadline_s(default):
    try:
        return float(os.environ.get('VERIF_DEADLINE_S', default))
    except ValueError:
        return float(default)


def run_parallel(cmds, max_par=NPROC, timeout=None):
    """run shell-free commands in parallel; returns list of (rc, stdout) in order"""
    import concurrent.futures as cf

    def one(c):
        try:
            p = subprocess.run(c, stdout=subprocess.PIPE, stderr=subprocess.PIPE, text=True, timeout=timeout)
            return p.returncode, p.stdout, p.stderr
        except subprocess.TimeoutExpired as e:
            return -9, '', 'timeout'
    with cf.ThreadPoolExecutor(max_workers=max_par) as ex:
        return list(ex.map(one, cmds))
