// Shared part of the E2 runtime harnesses.  This header is included by ONE translation unit per
// executable; it #includes the repository's acquire.c so that the harness sees struct runtime (needed
// to swap the hard-coded 1 GiB rings for tiny ones and to register the racy flags) - no source hook.
#ifndef VERIF_RT_COMMON_H
#define VERIF_RT_COMMON_H

#include "acquire.c" // the real runtime front end, compiled as part of this TU (cov flavour: instrumented)

#include "vsched.h"
#include "vmock.h"
#include <stdio.h>

static struct AcquireRuntime* RT;
static struct runtime* rt;

static void rt_reporter(int is_error, const char* file, int line, const char* function, const char* msg)
{
    vs_log(is_error, file, line, function, msg);
}

#define OKQ(e)                                                                                                         \
    do {                                                                                                               \
        if ((e) != AcquireStatus_Ok) vs_fail("harness:api-call-failed", "%s returned an error (%s:%d)", #e, __FILE__, __LINE__); \
    } while (0)

// swap the 1 GiB rings for small ones: same struct addresses, so source.to_sink / filter.out stay valid
static void rt_resize_rings(size_t sink_bytes, size_t filter_bytes, int prefill)
{
    for (int i = 0; i < 2; ++i) {
        channel_release(&rt->video[i].sink.in);
        channel_new(&rt->video[i].sink.in, sink_bytes);
        channel_release(&rt->video[i].filter.in);
        channel_new(&rt->video[i].filter.in, filter_bytes);
        if (prefill >= 0) { // ring memory outside committed data is unspecified: make it visibly dirty
            for (size_t k = 0; k < sink_bytes; ++k) rt->video[i].sink.in.data[k] = (uint8_t)prefill;
            for (size_t k = 0; k < filter_bytes; ++k) rt->video[i].filter.in.data[k] = (uint8_t)prefill;
        }
    }
}

static void rt_watch_flags(int nstreams, int level)
{
    static char names[2][12][40];
    for (int i = 0; i < nstreams; ++i) {
        struct video_s* v = &rt->video[i];
#define WATCH(k, field)                                                                                               \
    do {                                                                                                               \
        snprintf(names[i][k], sizeof names[i][k], "video[%d]." #field, i);                                             \
        vs_watch(&v->field, sizeof v->field, names[i][k]);                                                             \
    } while (0)
        WATCH(0, source.is_stopping);
        WATCH(1, sink.is_stopping);
        WATCH(2, filter.is_stopping);
        WATCH(3, sink.in.is_accepting_writes);
        // the following were added after the ThreadSanitizer audit (tools/tsan_audit.py) reported races on them
        WATCH(4, source.is_running);
        WATCH(5, sink.is_running);
        WATCH(6, filter.is_running);
        WATCH(8, source.max_frame_count);
        WATCH(9, source.enable_filter);
        WATCH(10, sink.write_delay_ms);
        if (level >= 2) {
            WATCH(7, filter.sig_accumulator_reset);
        }
#undef WATCH
        vs_name(&v->source, i ? "source[1]" : "source[0]");
        vs_name(&v->sink, i ? "sink[1]" : "sink[0]");
        vs_name(&v->filter, i ? "filter[1]" : "filter[0]");
        vs_name(&v->sink.in.lock, i ? "video[1].sink.in.lock" : "video[0].sink.in.lock");
        vs_name(&v->sink.in.notify_space_available, i ? "video[1].sink.in.space" : "video[0].sink.in.space");
        vs_name(&v->filter.in.lock, i ? "video[1].filter.in.lock" : "video[0].filter.in.lock");
        vs_name(&v->filter.in.notify_space_available, i ? "video[1].filter.in.space" : "video[0].filter.in.space");
    }
}

// the HAL's per-device state word is read and written by client and worker threads without a lock
static void rt_watch_devices(int nstreams)
{
    for (int i = 0; i < nstreams; ++i) {
        struct video_s* v = &rt->video[i];
        if (v->source.camera) vs_watch(&v->source.camera->state, sizeof v->source.camera->state, i ? "camera[1].state(HAL)" : "camera[0].state(HAL)");
        if (v->sink.storage) vs_watch(&v->sink.storage->state, sizeof v->sink.storage->state, i ? "storage[1].state(HAL)" : "storage[0].state(HAL)");
    }
}

static void rt_init(void)
{
    vmock_reset_config();
    RT = acquire_init(rt_reporter);
    if (!RT) { fprintf(stderr, "harness: acquire_init failed\n"); exit(2); }
    rt = containerof(RT, struct runtime, handle);
}

static void rt_select(struct AcquireProperties* p, int stream, const char* cam, const char* store)
{
    const struct DeviceManager* dm = acquire_device_manager(RT);
    if (device_manager_select(dm, DeviceKind_Camera, cam, strlen(cam), &p->video[stream].camera.identifier) != Device_Ok ||
        device_manager_select(dm, DeviceKind_Storage, store, strlen(store), &p->video[stream].storage.identifier) != Device_Ok) {
        if (vs_active()) vs_fail("harness:device-select-failed", "cannot select %s / %s", cam, store);
        fprintf(stderr, "harness: cannot select %s / %s (is the mock driver library next to the executable?)\n", cam, store);
        exit(2);
    }
}

#if defined(__has_feature)
#if __has_feature(thread_sanitizer)
#define VERIF_TSAN_AUDIT 1
#endif
#endif
#ifdef VERIF_TSAN_AUDIT
// TSan audit flavour: TSan owns memset; the 1 GiB rings are avoided by wrapping channel_new at link time instead
void __real_channel_new(struct channel* self, size_t capacity);
void __wrap_channel_new(struct channel* self, size_t capacity) { __real_channel_new(self, capacity > (1u << 20) ? 4096 : capacity); }
#else
// zero-fills of >= 256 MiB are skipped: acquire_init memsets four fresh 1 GiB mallocs (fresh pages are zero)
void* memset(void* d, int c, size_t n)
{
    if (n >= (256u << 20) && c == 0) return d;
    void* r = d;
    __asm__ volatile("rep stosb" : "+D"(d), "+c"(n) : "a"(c) : "memory");
    return r;
}
#endif

#endif
