// E2 scenarios on the REAL simulated camera (C18, C17 re-configure race): simulated.camera.c is
// #included so that the harness can register the camera's racy fields as watch ranges; it runs through
// the real HAL camera.c and the real linux/platform.c under the controlled scheduler.
#include "simcams/simulated.camera.c"

#include "device/hal/camera.h"
#include "vsched.h"
#include <stdio.h>

struct Camera* simcam_make_camera(enum BasicDeviceKind kind);
enum DeviceStatusCode simcam_close_camera(struct Camera* camera_);

// ---- electric-fence allocator for the camera's image buffers (link-time --wrap=realloc,free): every buffer ends at a
// PROT_NONE page and a released buffer becomes PROT_NONE for good, so a use after re-configuration or past the end faults
#include <sys/mman.h>
void* __real_realloc(void*, size_t);
void __real_free(void*);
static struct { char* base; size_t map; char* user; size_t n; int live; } EF[256];
static int NEF;
static int ef_find(void* p) { for (int i = 0; i < NEF; ++i) if (EF[i].user == (char*)p) return i; return -1; }
static char* CBUF_GUARD_FWD(void);
static void cbuf_make(void);
static const char* ef_classify(void* addr, char* detail, size_t n)
{
    if (CBUF_GUARD_FWD() && (char*)addr >= CBUF_GUARD_FWD() && (char*)addr < CBUF_GUARD_FWD() + 4096) { snprintf(detail, n, "the caller's image buffer was accessed beyond its end:"); return "C17:caller-buffer-overflow"; }
    for (int i = 0; i < NEF; ++i)
        if ((char*)addr >= EF[i].base && (char*)addr < EF[i].base + EF[i].map) {
            snprintf(detail, n, "camera image buffer #%d (%zu bytes) %s:", i, EF[i].n, EF[i].live ? "accessed beyond its end" : "accessed after it was released by a re-configuration");
            return EF[i].live ? "C17:camera-buffer-overflow" : "C17:camera-buffer-use-after-free";
        }
    return 0;
}
#if defined(__has_feature)
#if __has_feature(thread_sanitizer)
#define VERIF_TSAN_AUDIT 1
#endif
#endif
void* __wrap_realloc(void* old, size_t n)
{
#ifdef VERIF_TSAN_AUDIT
    return __real_realloc(old, n);
#endif
    if (!vs_param("efence", 1) || NEF >= 256) return __real_realloc(old, n);
    int oi = old ? ef_find(old) : -1;
    if (old && oi < 0) return __real_realloc(old, n);
    size_t pages = (n + 32 + 4095) / 4096 + 1; // room for the 32-byte rounding and the optional 16-byte misalignment
    char* base = mmap(0, pages * 4096, PROT_READ | PROT_WRITE, MAP_PRIVATE | MAP_ANONYMOUS, -1, 0);
    if (base == MAP_FAILED) return 0;
    mprotect(base + (pages - 1) * 4096, 4096, PROT_NONE);
    char* user = base + (pages - 1) * 4096 - ((n + 31) / 32) * 32; // keeps the 32-byte granularity the camera rounds sizes to
    if (vs_param("misalign", 0)) user -= 16; // like malloc: 16-byte but not 32-byte aligned (aligned vector accesses fault); 16 bytes of slack at the end
    EF[NEF].base = base; EF[NEF].map = pages * 4096; EF[NEF].user = user; EF[NEF].n = n; EF[NEF].live = 1; ++NEF;
    if (oi >= 0) { memcpy(user, old, EF[oi].n < n ? EF[oi].n : n); EF[oi].live = 0; mprotect(EF[oi].base, EF[oi].map, PROT_NONE); }
    // the first bytes of every image buffer are watched: the first store of a render pass is a scheduling point, so the
    // explorer can re-configure between "streamer picked up the buffer pointer" and "streamer writes through it"
    if (vs_param("watch", 1)) vs_watch(user, 8, "cam.image-buffer[0..8)");
    return user;
}
void __wrap_free(void* p)
{
    int i = p ? ef_find(p) : -1;
    if (i < 0) { __real_free(p); return; }
    EF[i].live = 0; mprotect(EF[i].base, EF[i].map, PROT_NONE);
}

static struct Camera* CAM;
static struct SimulatedCamera* SC_;
static struct CameraProperties PROPS_;
static int P_TRIG, P_FRAMES;
static double P_EXPOSURE_MS;

static void reporter_(int is_error, const char* file, int line, const char* function, const char* msg) { vs_log(is_error, file, line, function, msg); }

// a driver whose close() is the simulated camera's (camera_close goes through device.driver->close)
static enum DeviceStatusCode drv_close(struct Driver* d, struct Device* dev) { (void)d; return simcam_close_camera(containerof(dev, struct Camera, device)); }
static struct Driver DRV = { .close = drv_close };

// camera_open is not used here (the camera is created directly); satisfy camera.c's references to the device manager
struct Driver* device_manager_get_driver(const struct DeviceManager* s, const struct DeviceIdentifier* i) { (void)s; (void)i; return 0; }
enum DeviceStatusCode driver_open_device(struct Driver* d, uint8_t id, struct Device** out) { (void)d; (void)id; (void)out; return Device_Err; }

static int g_live_trig; // the software trigger was switched on by a live camera_set during the run (controller op 'E')
static void apply_props(uint32_t w, uint32_t h, int type, int binning)
{
    memset(&PROPS_, 0, sizeof PROPS_);
    PROPS_.exposure_time_us = (float)(P_EXPOSURE_MS * 1000.0);
    PROPS_.binning = (uint8_t)binning;
    PROPS_.pixel_type = (enum SampleType)type;
    PROPS_.shape.x = w; PROPS_.shape.y = h;
    PROPS_.input_triggers.frame_start.enable = (uint8_t)(P_TRIG || g_live_trig);
    if (camera_set(CAM, &PROPS_) != Device_Ok) { fprintf(stderr, "harness: camera_set failed\n"); exit(2); }
}

static void cam_setup_common(void)
{
    logger_set_reporter(reporter_);
    vs_crash_classifier = ef_classify;
    cbuf_make();
    P_TRIG = (int)vs_param("trigger", 0);
    P_FRAMES = (int)vs_param("frames", 2);
    P_EXPOSURE_MS = (double)vs_param("exposure", 4);
    CAM = simcam_make_camera((enum BasicDeviceKind)vs_param("kind", BasicDevice_Camera_Empty));
    if (!CAM) { fprintf(stderr, "harness: simcam_make_camera failed\n"); exit(2); }
    CAM->device.driver = &DRV;
    CAM->device.identifier.device_id = (uint8_t)vs_param("kind", BasicDevice_Camera_Empty);
    SC_ = containerof(CAM, struct SimulatedCamera, camera);
    apply_props((uint32_t)vs_param("w", 1), (uint32_t)vs_param("h", 1), (int)vs_param("type", SampleType_u8), (int)vs_param("binning", 1));
    if (vs_param("watch", 1)) {
        vs_watch(&SC_->streamer.is_running, sizeof SC_->streamer.is_running, "cam.streamer.is_running");
        vs_watch(&SC_->im.frame_wanted, sizeof SC_->im.frame_wanted, "cam.im.frame_wanted");
        vs_watch(&SC_->software_trigger.triggered, sizeof SC_->software_trigger.triggered, "cam.software_trigger.triggered");
        vs_watch(&SC_->im.frame_id, sizeof SC_->im.frame_id, "cam.im.frame_id");
        vs_watch(&CAM->state, sizeof CAM->state, "camera.state(HAL)");
        // added after the ThreadSanitizer audit: the streamer reads these outside im.lock while simcam_set writes them
        vs_watch(&SC_->im.render_data, sizeof SC_->im.render_data, "cam.im.render_data(pointer)");
        vs_watch(&SC_->properties.binning, sizeof SC_->properties.binning, "cam.properties.binning");
    }
    vs_name(&SC_->im.lock, "cam.im.lock");
    vs_name(&SC_->im.frame_ready, "cam.im.frame_ready");
    vs_name(&SC_->software_trigger.trigger_ready, "cam.trigger_ready");
    vs_name(SC_, "streamer");
}

// ------------------------------------------------------------------------------------------------
// C18
// ------------------------------------------------------------------------------------------------
struct run_log { int nframes; uint64_t ids[8]; int triggers_at_return[8]; uint64_t t_return_ns[8]; };
static struct run_log RUNS[2];
static int g_run;               // current run index
static int g_triggers[2];       // user triggers issued in each run
static uint64_t g_start_ns[2];
static int g_streamer_tid[2];
static int g_stop_calls;

// the caller's image buffer: `bufbytes` bytes (default 64) ending at a PROT_NONE page, filled with 0xEE before every frame call
static uint8_t* CBUF; static size_t CBUF_N; static char* CBUF_GUARD;
static void cbuf_make(void)
{
    CBUF_N = (size_t)vs_param("bufbytes", 64);
    size_t pages = (CBUF_N + 4095) / 4096;
    char* base = mmap(0, (pages + 1) * 4096, PROT_READ | PROT_WRITE, MAP_PRIVATE | MAP_ANONYMOUS, -1, 0);
    if (base == MAP_FAILED) { fprintf(stderr, "harness: mmap failed\n"); exit(2); }
    CBUF_GUARD = base + pages * 4096;
    mprotect(CBUF_GUARD, 4096, PROT_NONE);
    CBUF = (uint8_t*)CBUF_GUARD - CBUF_N;
}
// live enabling of the software trigger (op 'E'): exposures that BEGIN after it need a trigger.  A frame with id k has seen k+1
// exposure sleeps of the streamer begin; s_e = sleeps begun at 'E'; so id >= s_e means "exposed after the trigger was enabled".
static long g_enable_sleeps = -1, g_last_trigger_sleeps = -1000;
static int g_trig_after_enable, g_recent_pre_trigger, g_sleep_invariant_ok = 1, g_post_enable_exposures;
static void do_get_frames(int k)
{
    uint8_t* const buf = CBUF;
    for (int i = 0; i < k; ++i) {
        struct ImageInfo info;
        memset(&info, 0, sizeof info);
        info.hardware_frame_id = ~0ull;
        size_t nb = CBUF_N;
        if (i == 0 && g_run == 0 && vs_param("failfirst", 0)) nb = 0; // a frame call with a buffer that is too small: it fails
        memset(buf, 0xEE, CBUF_N);
        enum DeviceStatusCode rc = camera_get_frame(CAM, buf, &nb, &info);
        if (rc != Device_Ok) { vs_note("get_frame -> error (camera not running any more, or buffer too small)"); return; }
        if (info.hardware_frame_id == ~0ull) { vs_note("get_frame -> no frame (stopped)"); return; }
        {
            // C17: the call fills exactly the image it reports: nothing beyond it is written, its tail is not left unwritten
            size_t n = bytes_of_image(&info.shape);
            if (n > CBUF_N) vs_fail("C17:frame-larger-than-buffer", "get_frame reports an image of %zu bytes in a buffer of %zu", n, CBUF_N);
            for (size_t j = n; j < CBUF_N && j < n + 256; ++j)
                if (buf[j] != 0xEE) vs_fail("C17:frame-call-wrote-beyond-reported-image", "get_frame reports an image of %zu bytes (%ux%u) but byte %zu of the caller's buffer was written too", n, info.shape.dims.width, info.shape.dims.height, j);
            int untouched = 0;
            for (size_t j = n; j-- > 0 && n - j <= 16;) untouched += buf[j] == 0xEE;
            if (n >= 16 && untouched == 16) vs_fail("C17:frame-not-filled", "get_frame reports an image of %zu bytes (%ux%u) but the last 16 bytes of it were never written", n, info.shape.dims.width, info.shape.dims.height);
        }
        struct run_log* r = &RUNS[g_run];
        vs_note("get_frame -> id %llu (triggers so far %d)", (unsigned long long)info.hardware_frame_id, g_triggers[g_run]);
        if (r->nframes < 8) { r->ids[r->nframes] = info.hardware_frame_id; r->triggers_at_return[r->nframes] = g_triggers[g_run]; r->t_return_ns[r->nframes] = vs_now_ns(); r->nframes++; }
        // online oracles
        if (r->nframes >= 2 && r->ids[r->nframes - 1] <= r->ids[r->nframes - 2])
            vs_fail("C18:frame-id-not-increasing", "run %d: successive frame calls returned hardware frame ids %llu then %llu", g_run, (unsigned long long)r->ids[r->nframes - 2], (unsigned long long)r->ids[r->nframes - 1]);
        if (P_TRIG && r->nframes > g_triggers[g_run])
            vs_fail("C18:more-frames-than-triggers", "run %d: %d frames delivered but only %d software triggers were issued in this run", g_run, r->nframes, g_triggers[g_run]);
        // the id counts every frame generated since this start; the streamer sleeps out one exposure per frame, so it cannot
        // exceed the number of exposure sleeps the streamer thread of THIS run has begun (wall-clock arithmetic would be wrong
        // here: an early wake-up deviation shortens a sleep without moving the virtual clock)
        if (info.hardware_frame_id + 1 > vs_sleeps_of(g_streamer_tid[g_run])) g_sleep_invariant_ok = 0; // (an exposure without a sleep: the id/sleep arithmetic below does not apply to this execution)
        if (g_enable_sleeps >= 0 && g_sleep_invariant_ok && (long)info.hardware_frame_id >= g_enable_sleeps) {
            ++g_post_enable_exposures;
            // (+1: the streamer may have passed its trigger gate for one more frame just before the set, without having begun its exposure sleep)
            if (g_post_enable_exposures > 1 + g_trig_after_enable + g_recent_pre_trigger)
                vs_fail("C18:frame-without-trigger-after-live-enable", "frame id %llu was exposed after the software trigger had been enabled (the streamer had begun %ld exposures then) although only %d trigger(s) were fired since (+%d fired just before)",
                        (unsigned long long)info.hardware_frame_id, g_enable_sleeps, g_trig_after_enable, g_recent_pre_trigger);
        }
        uint64_t max_generated = vs_sleeps_of(g_streamer_tid[g_run]) + 1;
        if (!P_TRIG && info.hardware_frame_id > max_generated)
            vs_fail("C18:frame-count-not-restarted", "run %d: frame id %llu although the streamer of this run has generated at most %llu frames", g_run, (unsigned long long)info.hardware_frame_id, (unsigned long long)max_generated);
        if (P_TRIG && info.hardware_frame_id >= (uint64_t)g_triggers[g_run] + 1)
            vs_fail("C18:frame-count-not-restarted", "run %d: frame id %llu with only %d triggers issued in this run", g_run, (unsigned long long)info.hardware_frame_id, g_triggers[g_run]);
    }
}
static char* CBUF_GUARD_FWD(void) { return CBUF_GUARD; }
static void caller_thread(void* a) { (void)a; do_get_frames(P_FRAMES); }
static void controller_thread(void* a)
{
    (void)a;
    for (const char* p = vs_param_str("ctl", "s"); *p; ++p) {
        switch (*p) {
            case 't': g_triggers[g_run]++; if (g_enable_sleeps >= 0) g_trig_after_enable++; g_last_trigger_sleeps = (long)vs_sleeps_of(g_streamer_tid[g_run]); camera_execute_trigger(CAM); break;
            case 'E': { // switch the software trigger on while the camera runs
                g_live_trig = 1;
                apply_props((uint32_t)vs_param("w", 1), (uint32_t)vs_param("h", 1), (int)vs_param("type", SampleType_u8), (int)vs_param("binning", 1));
                g_enable_sleeps = (long)vs_sleeps_of(g_streamer_tid[g_run]);
                g_recent_pre_trigger = (g_enable_sleeps - g_last_trigger_sleeps <= 1) ? 1 : 0;
                break;
            }
            case 's': ++g_stop_calls; camera_stop(CAM); break;
            case 'w': vs_sleep_ms(P_EXPOSURE_MS + 1); break;
        }
    }
}
static void c18_setup(void) { cam_setup_common(); }
static void c18_run(void)
{
    g_run = 0;
    g_start_ns[0] = vs_now_ns();
    g_streamer_tid[0] = vs_thread_count(); // camera_start creates the streamer thread next
    if (camera_start(CAM) != Device_Ok) vs_fail("harness:camera-start", "camera_start failed");
    int tc = vs_spawn(caller_thread, 0, "caller");
    int tk = vs_spawn(controller_thread, 0, "controller");
    vs_join(tk);
    // if the controller program did not stop the camera the client does, after a grace period (stop unblocks the caller)
    if (!strchr(vs_param_str("ctl", "s"), 's')) { vs_sleep_ms(2 * P_EXPOSURE_MS + 1); camera_stop(CAM); }
    vs_join(tc);
    camera_stop(CAM);
    if (vs_param("restart", 1)) {
        g_run = 1;
        if (vs_param("failfirst", 0)) apply_props((uint32_t)vs_param("w", 1), (uint32_t)vs_param("h", 1), (int)vs_param("type", SampleType_u8), (int)vs_param("binning", 1)); // after a failed frame call the camera awaits configuration
        g_start_ns[1] = vs_now_ns();
        g_streamer_tid[1] = vs_thread_count();
        if (camera_start(CAM) != Device_Ok) vs_fail("harness:camera-restart", "camera_start failed on restart");
        int t2 = vs_spawn(caller_thread, 0, "caller2");
        const char* c2 = vs_param_str("ctl2", P_TRIG ? "wws" : "ws");
        for (const char* p = c2; *p; ++p) {
            if (*p == 't') { g_triggers[1]++; camera_execute_trigger(CAM); }
            else if (*p == 'w') vs_sleep_ms(P_EXPOSURE_MS + 1);
            else if (*p == 's') camera_stop(CAM);
        }
        vs_join(t2);
        camera_stop(CAM);
    }
}
static void c18_check(void)
{
    for (int r = 0; r < 2; ++r) {
        vs_observe_u64((uint64_t)RUNS[r].nframes);
        for (int i = 0; i < RUNS[r].nframes; ++i) vs_observe_u64(RUNS[r].ids[i]);
    }
    if (RUNS[0].nframes) vs_event(22);
    if (RUNS[1].nframes) vs_event(23);
}

// ------------------------------------------------------------------------------------------------
// C17 (race part): re-configuration while the streamer is rendering
// ------------------------------------------------------------------------------------------------
static void c17r_setup(void) { cam_setup_common(); }
static void c17r_caller(void* a) { (void)a; do_get_frames(P_FRAMES); }
static void c17r_run(void)
{
    g_run = 0; g_start_ns[0] = vs_now_ns();
    g_streamer_tid[0] = vs_thread_count();
    if (camera_start(CAM) != Device_Ok) vs_fail("harness:camera-start", "camera_start failed");
    int tc = vs_spawn(c17r_caller, 0, "caller");
    vs_sleep_ms(1);
    apply_props((uint32_t)vs_param("w2", 64), (uint32_t)vs_param("h2", 64), (int)vs_param("type2", SampleType_u16), (int)vs_param("binning2", 1));
    if (P_TRIG) { // frames only on a software trigger: the caller's frame call is parked across the re-configuration, then released
        for (int i = 0; i < P_FRAMES; ++i) { g_triggers[0]++; camera_execute_trigger(CAM); vs_sleep_ms(P_EXPOSURE_MS + 1); }
        camera_stop(CAM); // releases a frame call that is still pending
    }
    vs_join(tc);
    camera_stop(CAM);
}

// c17t: software-triggered camera re-configured while its streamer is PARKED in the trigger wait (never while it renders: that race
// is scenario c17r's known finding), then triggered again.  The client waits until the first frame has been delivered and the
// streamer thread is asleep on its condition variable before it calls set.
static void c17t_setup(void) { cam_setup_common(); }
static void c17t_run(void)
{
    g_run = 0; g_start_ns[0] = vs_now_ns();
    g_streamer_tid[0] = vs_thread_count();
    if (camera_start(CAM) != Device_Ok) vs_fail("harness:camera-start", "camera_start failed");
    int tc = vs_spawn(c17r_caller, 0, "caller");
    g_triggers[0]++; camera_execute_trigger(CAM);
    int parked = 0;
    for (int k = 0; k < 40 && !parked; ++k) { parked = RUNS[0].nframes >= 1 && vs_blocked_on_cond(g_streamer_tid[0]); if (!parked) vs_sleep_ms(1); }
    if (parked) {
        vs_event(24);
        apply_props((uint32_t)vs_param("w2", 4), (uint32_t)vs_param("h2", 4), (int)vs_param("type2", SampleType_u8), (int)vs_param("binning2", 1));
        g_triggers[0]++; camera_execute_trigger(CAM);
        vs_sleep_ms(P_EXPOSURE_MS + 1);
    }
    camera_stop(CAM);
    vs_join(tc);
    camera_stop(CAM);
}

struct vs_scenario vs_scenarios[] = {
    { "c18", "simulated camera: caller get_frame x frames, controller ctl=[tsw]*, trigger=0|1, restart", c18_setup, c18_run, c18_check },
    { "c17r", "simulated camera re-configured (w2,h2,type2,binning2) while streaming", c17r_setup, c17r_run, 0 },
    { "c17t", "software-triggered simulated camera re-configured while its streamer is parked in the trigger wait", c17t_setup, c17t_run, 0 },
    { 0 },
};

int main(int argc, char** argv) { return vs_main(argc, argv); }
