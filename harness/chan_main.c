// E2 / C03 part B: the writer's check-then-sleep window at thread level, on the REAL channel.c and the
// REAL linux/platform.c under the controlled scheduler.  Start states are the blocked (state, request)
// cases dumped by the E1 search (chanbfs --dump-blocked); the harness picks the case with vs_choose, so
// one exploration covers every case x every interleaving within the bound.
//   threads: W  channel_write_map(n) [+ write_unmap]     R_i  (read_map; read_unmap(all)) x 2
//            A  channel_accept_writes(ch, 0)   (variant with A)
// oracle: W always returns (no deadlock): with a region when the readers drained and nobody refused,
//         with NULL or a region when A ran.
#include "runtime/channel.h"
#include "vsched.h"
#include <stdio.h>
#include <stdlib.h>
#include <string.h>

struct blocked_case
{
    int cap, nr, n;
    size_t head, high, cycle, mapped; int accepting; unsigned holds_n;
    struct { size_t hpos, hcyc; unsigned id; size_t pos, cyc; int status, state, joined; } r[2];
};
static struct blocked_case* CASES;
static int NCASES;
static struct channel CH;
static struct channel_reader RD[2];
static int CUR_CASE;
static void* W_RESULT; static int W_RETURNED;
static int WITH_A, PARTIAL;

static void load_cases(const char* path)
{
    FILE* f = fopen(path, "r");
    if (!f) { fprintf(stderr, "chan_main: cannot read %s\n", path); exit(2); }
    int cap = 0;
    CASES = malloc(sizeof *CASES * 200000);
    while (NCASES < 200000) {
        struct blocked_case* c = &CASES[NCASES];
        memset(c, 0, sizeof *c);
        if (fscanf(f, "%d %d %d %zu %zu %zu %zu %d %u", &c->cap, &c->nr, &c->n, &c->head, &c->high, &c->cycle, &c->mapped, &c->accepting, &c->holds_n) != 9) break;
        for (int r = 0; r < c->nr; ++r)
            if (fscanf(f, "%zu %zu %u %zu %zu %d %d %d", &c->r[r].hpos, &c->r[r].hcyc, &c->r[r].id, &c->r[r].pos, &c->r[r].cyc, &c->r[r].status, &c->r[r].state, &c->r[r].joined) != 8) { fprintf(stderr, "bad case file\n"); exit(2); }
        if (!c->accepting) continue; // a request only sleeps while writes are accepted
        ++NCASES; cap = c->cap;
    }
    fclose(f);
    (void)cap;
}

static void setup(void)
{
    load_cases(vs_param_str("cases", "/dev/null"));
    if (!NCASES) { fprintf(stderr, "chan_main: no blocked cases\n"); exit(2); }
    WITH_A = (int)vs_param("with_a", 0);
    PARTIAL = (int)vs_param("partial", 0);
    channel_new(&CH, (size_t)CASES[0].cap);
    vs_watch(&CH.is_accepting_writes, sizeof CH.is_accepting_writes, "channel.is_accepting_writes");
    vs_name(&CH.lock, "channel.lock");
    vs_name(&CH.notify_space_available, "channel.notify_space_available");
}

static void writer(void* a)
{
    (void)a;
    W_RESULT = channel_write_map(&CH, (size_t)CASES[CUR_CASE].n);
    if (W_RESULT) {
        // C02 at thread level (a writer that was asleep and woken must re-check): the granted region [beg, beg+n) may not reach into
        // what a reader one lap behind has not consumed yet ([pos_r, high) of the previous lap), nor beyond the buffer
        size_t beg = (size_t)((uint8_t*)W_RESULT - CH.data), n = (size_t)CASES[CUR_CASE].n;
        if (beg + n > CH.capacity) vs_fail("C02:write-region-outside-buffer", "case %d: writer was handed [%zu,%zu) in a buffer of %zu bytes", CUR_CASE, beg, beg + n, CH.capacity);
        for (unsigned r = 0; r < CH.holds.n; ++r)
            if (CH.holds.cycles[r] + 1 == CH.cycle && beg + n > CH.holds.pos[r])
                vs_fail("C02:write-overlaps-unconsumed", "case %d: writer was handed [%zu,%zu) although reader %u, one lap behind, has not consumed [%zu,...) yet", CUR_CASE, beg, beg + n, r, CH.holds.pos[r]);
        channel_write_unmap(&CH);
    }
    W_RETURNED = 1;
    vs_note("writer returned %s", W_RESULT ? "a region" : "no region");
}
static void reader(void* a)
{
    struct channel_reader* r = a;
    if (!r->id) return; // not joined in this start state
    for (int k = 0; k < 3; ++k) {
        if (r->state == ChannelState_Mapped) channel_read_unmap(&CH, r, (size_t)-1); // releases what the start state holds mapped
        struct slice s = channel_read_map(&CH, r);
        size_t len = (size_t)(s.end - s.beg);
        if (PARTIAL && len > 1) { channel_read_unmap(&CH, r, 1); s = channel_read_map(&CH, r); len = (size_t)(s.end - s.beg); } // gives back one byte first: a wake-up that frees too little
        channel_read_unmap(&CH, r, len);
    }
}
static void refuser(void* a) { (void)a; channel_accept_writes(&CH, 0); }

static void run(void)
{
    // pick the start state
    int per = 200, hi = vs_choose((NCASES + per - 1) / per);
    int left = NCASES - hi * per; if (left > per) left = per;
    CUR_CASE = hi * per + vs_choose(left);
    const struct blocked_case* c = &CASES[CUR_CASE];
    CH.head = c->head; CH.high = c->high; CH.cycle = c->cycle; CH.mapped = c->mapped; CH.is_accepting_writes = (unsigned char)c->accepting; CH.holds.n = c->holds_n;
    for (int r = 0; r < c->nr; ++r) {
        CH.holds.pos[r] = c->r[r].hpos; CH.holds.cycles[r] = c->r[r].hcyc;
        RD[r].id = c->r[r].id; RD[r].pos = c->r[r].pos; RD[r].cycle = c->r[r].cyc; RD[r].status = (enum ChannelStatus)c->r[r].status; RD[r].state = (enum ChannelState)c->r[r].state;
    }
    vs_note("case %d: cap %d, writer asks for %d, head %zu high %zu cycle %zu", CUR_CASE, c->cap, c->n, c->head, c->high, c->cycle);
    int tw = vs_spawn(writer, 0, "writer");
    int tr[2] = { -1, -1 };
    // readers=0: the readers never come back (a sink that died): only the refuse-writes signal can release the writer
    if (vs_param("readers", 1)) for (int r = 0; r < c->nr; ++r) tr[r] = vs_spawn(reader, &RD[r], r ? "reader1" : "reader0");
    int ta = WITH_A ? vs_spawn(refuser, 0, "refuser") : -1;
    vs_join(tw);
    for (int r = 0; r < c->nr; ++r) if (tr[r] >= 0) vs_join(tr[r]);
    if (ta >= 0) vs_join(ta);
}
static void check(void)
{
    if (!W_RETURNED) vs_fail("C03:writer-never-returned", "case %d: the writer did not return", CUR_CASE);
    if (!WITH_A && !W_RESULT) vs_fail("C03:no-region-without-refusal", "case %d: channel_write_map returned no region although writes were never refused", CUR_CASE);
    vs_observe_u64((uint64_t)(W_RESULT != 0));
    vs_observe_u64((uint64_t)CUR_CASE);
}

struct vs_scenario vs_scenarios[] = {
    { "c03b", "writer check-then-sleep vs reader unmaps (and the refuse-writes signal with with_a=1), from the blocked states in `cases`", setup, run, check },
    { 0 },
};
int main(int argc, char** argv) { return vs_main(argc, argv); }
