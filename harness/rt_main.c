// E2 runtime scenarios (C04..C10): the real acquire.c/source.c/sink.c/filter.c/channel.c, HAL,
// loader, device manager and linux/platform.c under the controlled scheduler, with the recording
// mock driver as camera and storage.
#include "rt_common.h"

// ------------------------------------------------------------------------------------------------
// common scenario plumbing
// ------------------------------------------------------------------------------------------------
static int P_N, P_STREAMS, P_CLIENT, P_W, P_H, P_TYPE, P_AVG;
static size_t P_RING, P_FRING;
static struct AcquireProperties PROPS;

// client kinds
enum { CL_NONE = 0, CL_FAST, CL_SLOW, CL_PARTIAL, CL_HOLD };

static size_t frame_bytes(int w, int h, int type) { return vmock_expected_frame_bytes((uint32_t)w, (uint32_t)h, type); }

static void common_setup(const char* prop)
{
    rt_init();
    VM.prop = prop;
    VM.packet_checks = (int)vs_param("packet_checks", 1);
    P_N = (int)vs_param("n", 3);
    P_STREAMS = (int)vs_param("streams", 1);
    P_CLIENT = (int)vs_param("client", CL_NONE);
    P_W = (int)vs_param("w", 3); P_H = (int)vs_param("h", 1); P_TYPE = (int)vs_param("type", SampleType_u8);
    P_AVG = (int)vs_param("avg", 0);
    size_t fb = frame_bytes(P_W, P_H, P_TYPE);
    // ring = ringf whole frames + ringx extra bytes (so every wrap position relative to the reader occurs)
    P_RING = (size_t)vs_param("ringf", 2) * fb + (size_t)vs_param("ringx", 8);
    size_t ffb = frame_bytes(P_W, P_H, P_TYPE);
    P_FRING = (size_t)vs_param("fringf", 2) * ffb + (size_t)vs_param("fringx", 8);
    if (P_AVG > 1) { // the sink ring carries f32 frames when averaging
        size_t ofb = frame_bytes(P_W, P_H, SampleType_f32);
        P_RING = (size_t)vs_param("ringf", 2) * ofb + (size_t)vs_param("ringx", 8);
    }
    rt_resize_rings(P_RING, P_FRING, (int)vs_param("prefill", 0xA5));
    for (int s = 0; s < 2; ++s) {
        VM.cam[s].width = (uint32_t)(s == 0 ? P_W : vs_param("w1", P_W + 1));
        VM.cam[s].height = (uint32_t)P_H;
        VM.cam[s].type = P_TYPE;
        VM.cam[s].exposure_ms = (double)vs_param(s ? "exposure1" : "exposure", 10);
        VM.cam[s].trigger = (int)vs_param("trigger", 0);
        VM.cam[s].fail_get_frame_at = (int)vs_param(s ? "camfail1" : "camfail", -1);
        VM.cam[s].fail_shape_at = s == 0 ? (int)vs_param("shapefail", -1) : -1;
        if (s == 0) { VM.cam[s].reshape_at = (int)vs_param("reshape_at", -1); VM.cam[s].reshape_mode = (int)vs_param("reshape_mode", 0); VM.cam[s].reshape_w = (uint32_t)vs_param("reshape_w", 1); VM.cam[s].reshape_h = (uint32_t)vs_param("reshape_h", 1); }
        VM.store[s].append_ms = (double)vs_param(s ? "append_ms1" : "append_ms", 0);
        VM.store[s].fail_append_at = (int)vs_param(s ? "storefail1" : "storefail", -1);
    }
    memset(&PROPS, 0, sizeof PROPS);
    acquire_get_configuration(RT, &PROPS);
    for (int s = 0; s < P_STREAMS; ++s) {
        rt_select(&PROPS, s, s ? "vcam1" : "vcam0", s ? "vstore1" : "vstore0");
        PROPS.video[s].max_frame_count = (uint64_t)(s == 0 ? P_N : vs_param("n1", P_N + 1));
        PROPS.video[s].frame_average_count = (uint32_t)P_AVG;
        PROPS.video[s].storage.write_delay_ms = (float)vs_param("write_delay", 0);
        PROPS.video[s].camera.settings.input_triggers.frame_start.enable = (uint8_t)vs_param("trigger", 0);
    }
    if (acquire_configure(RT, &PROPS) != AcquireStatus_Ok) { fprintf(stderr, "harness: acquire_configure failed in setup\n"); exit(2); }
    rt_watch_flags(P_STREAMS, (int)vs_param("watch", 1));
    rt_watch_devices(P_STREAMS);
    if (P_AVG > 1 && vs_param("watchpix", 1)) {
        // The averaged frame is built in place in the sink ring by the filter thread (accumulate, normalize) and read by
        // the sink thread and the client: the last pixel of every frame slot is a scheduling point, so the explorer can
        // run a reader between any two of the filter's passes over a frame (e.g. between publishing and normalising).
        static char nm[2][8][40];
        size_t ofb = frame_bytes(P_W, P_H, SampleType_f32);
        for (int s = 0; s < P_STREAMS; ++s)
            for (int k = 0; k < 8 && (size_t)(k + 1) * ofb <= P_RING; ++k) {
                snprintf(nm[s][k], sizeof nm[s][k], "video[%d].sink.in frame slot %d last pixel", s, k);
                vs_watch(rt->video[s].sink.in.data + (size_t)k * ofb + sizeof(struct VideoFrame) + ((size_t)P_W * P_H - 1) * 4, 4, nm[s][k]);
            }
    }
}

// ---- client-side monitoring (C06 oracle lives here; used by C04/C05 as the "client pace" axis) ---
struct mon_state { int have_last; uint64_t last_id; int frames_seen; int acq; };
static struct mon_state MON[2];
static int g_acq_no[2]; // acquisition number per stream as the client counts starts (== mock acq for the first device)

static void client_check_frame(int s, const struct VideoFrame* f, const char* prop)
{
    // the camera that produced it and this acquisition's payload function
    struct vm_dev* cam = vmock_cam(s);
    int acq = cam->acq;
    if (P_AVG <= 1) {
        size_t need = (size_t)f->shape.dims.width * f->shape.dims.height;
        for (uint32_t i = 0; i < need && i < 64; ++i) {
            uint8_t want = vmock_pixel(acq, s, f->hardware_frame_id, i);
            if (f->data[i] != want) {
                char cl[64];
                snprintf(cl, sizeof cl, "%s:monitor-wrong-or-stale-pixels", prop);
                vs_fail(cl, "stream %d: monitor frame id %llu byte %u is 0x%02x, acquisition %d's frame has 0x%02x (stale frame of an earlier acquisition or altered data)", s, (unsigned long long)f->frame_id, i, f->data[i], acq, want);
            }
        }
    }
    struct mon_state* m = &MON[s];
    const uint64_t step = P_AVG > 1 ? (uint64_t)P_AVG : 1; // averaged frames carry the id of their window's first input
    if (m->have_last && f->frame_id != m->last_id + step) {
        char cl[64];
        snprintf(cl, sizeof cl, "%s:monitor-gap-or-repeat", prop);
        vs_fail(cl, "stream %d: monitor saw frame id %llu after %llu", s, (unsigned long long)f->frame_id, (unsigned long long)m->last_id);
    }
    m->have_last = 1; m->last_id = f->frame_id; m->frames_seen++;
}

// one monitor poll; mode: 0 consume all, 1 consume first frame only, 2 consume nothing
// zero-copy stability (C02 at runtime level, C06): what a client has mapped must not change until it unmaps
static uint8_t g_snap[2][8192]; static const uint8_t* g_snap_at[2]; static size_t g_snap_n[2];
static void snap_take(int s, const void* b, const void* e)
{
    size_t n = (size_t)((const uint8_t*)e - (const uint8_t*)b);
    if (n > sizeof g_snap[0]) n = sizeof g_snap[0];
    g_snap_at[s] = (const uint8_t*)b; g_snap_n[s] = n;
    if (n) memcpy(g_snap[s], b, n);
}
static void snap_verify(int s, const char* prop, const char* when)
{
    if (!g_snap_n[s]) return;
    if (memcmp(g_snap[s], g_snap_at[s], g_snap_n[s])) {
        size_t i = 0; while (g_snap[s][i] == g_snap_at[s][i]) ++i;
        char cl[64]; snprintf(cl, sizeof cl, "%s:mapped-region-changed-while-held", prop);
        vs_fail(cl, "stream %d: byte %zu of the %zu-byte region the client has mapped changed %s (was %02x, is %02x)", s, i, g_snap_n[s], when, g_snap[s][i], g_snap_at[s][i]);
    }
    vs_event(13);
    g_snap_n[s] = 0;
}
static int client_poll(int s, int mode, double hold_ms, const char* prop)
{
    struct VideoFrame *beg = 0, *end = 0;
    if (acquire_map_read(RT, (uint32_t)s, &beg, &end) != AcquireStatus_Ok) {
        char cl[64];
        snprintf(cl, sizeof cl, "%s:map-read-fails", prop);
        vs_fail(cl, "acquire_map_read(stream %d) returned an error through legal use", s);
    }
    char msg[300];
    int nf = vmock_check_packet((uint8_t*)beg, (uint8_t*)end, msg, sizeof msg);
    if (nf < 0) vs_fail("C05:monitor-packet-malformed", "region mapped by the client on stream %d: %s", s, msg);
    size_t consumed = 0;
    const uint8_t* cur = (const uint8_t*)beg;
    int k = 0;
    for (; k < nf; ++k) {
        const struct VideoFrame* f = (const struct VideoFrame*)cur;
        if (mode == 2) break;
        client_check_frame(s, f, prop);
        cur += f->bytes_of_frame;
        consumed += f->bytes_of_frame;
        if (mode == 1) { ++k; break; }
    }
    if (nf > 1 && mode == 1) vs_event(10); // partial consumption of a multi-frame region
    if (nf > 0) vs_event(11);
    if (hold_ms > 0) { snap_take(s, beg, end); vs_sleep_ms(hold_ms); snap_verify(s, prop, "during the hold"); }
    if (acquire_unmap_read(RT, (uint32_t)s, consumed) != AcquireStatus_Ok) {
        char cl[64];
        snprintf(cl, sizeof cl, "%s:unmap-read-fails", prop);
        vs_fail(cl, "acquire_unmap_read(stream %d) returned an error", s);
    }
    return nf;
}

static void client_during_acquisition(const char* prop)
{
    if (P_CLIENT == CL_NONE) return;
    int polls = 0;
    while (acquire_get_state(RT) == DeviceState_Running && polls < 64) {
        for (int s = 0; s < P_STREAMS; ++s) {
            switch (P_CLIENT) {
                case CL_FAST: client_poll(s, 0, 0, prop); break;
                case CL_SLOW: client_poll(s, 0, 0, prop); break;
                case CL_PARTIAL: client_poll(s, 1, 0, prop); break;
                case CL_HOLD: client_poll(s, 0, (double)vs_param("hold_ms", 25), prop); break;
            }
        }
        vs_sleep_ms(P_CLIENT == CL_SLOW ? 35 : 7);
        ++polls;
    }
}

// ---- storage oracle (C04): storage log == frames the camera delivered, in order, bit-exact -------
static void check_storage_complete(int s, int acq, int expect_n, const char* prop, int prefix_ok)
{
    struct vm_dev* cam = vmock_cam(s);
    struct vm_dev* st = vmock_store(s);
    char cl[96];
    int nd = 0, nr = 0;
    const struct vm_frame *D[VM_MAXFRAMES], *Rr[VM_MAXFRAMES];
    for (int i = 0; i < cam->ndelivered; ++i) if (cam->delivered[i].acq == acq) D[nd++] = &cam->delivered[i];
    for (int i = 0; i < st->nreceived; ++i) if (st->received[i].acq == acq) Rr[nr++] = &st->received[i];
    if (!prefix_ok && expect_n >= 0 && nd != expect_n) {
        snprintf(cl, sizeof cl, "%s:camera-frame-count", prop);
        vs_fail(cl, "stream %d acquisition %d: camera delivered %d frames, the finite acquisition asked for %d", s, acq, nd, expect_n);
    }
    if (P_AVG <= 1 && nr > nd) {
        snprintf(cl, sizeof cl, "%s:storage-got-more-than-delivered", prop);
        vs_fail(cl, "stream %d acquisition %d: storage received %d frames, the camera delivered only %d", s, acq, nr, nd);
    }
    if (P_AVG <= 1 && !prefix_ok && nr != nd) {
        snprintf(cl, sizeof cl, "%s:frames-missing-at-storage", prop);
        vs_fail(cl, "stream %d acquisition %d: camera delivered %d frames but storage received %d (last stored id %lld)", s, acq, nd, nr, nr ? (long long)Rr[nr - 1]->frame_id : -1LL);
    }
    if (P_AVG > 1) {
        // averaged stream: the exact-mean oracle is C10's; here only "no more output than complete windows (+1 trailing)", ids of window starts
        int maxout = (nd + P_AVG - 1) / P_AVG;
        if (nr > maxout) { snprintf(cl, sizeof cl, "%s:storage-got-more-than-delivered", prop); vs_fail(cl, "stream %d acquisition %d: %d averaged frames stored from %d inputs with window %d", s, acq, nr, nd, P_AVG); }
        for (int i = 0; i < nr; ++i)
            if (Rr[i]->frame_id != (uint64_t)(i * P_AVG)) { snprintf(cl, sizeof cl, "%s:storage-order-or-duplicate", prop); vs_fail(cl, "stream %d acquisition %d: %d-th averaged frame has frame_id %llu", s, acq, i, (unsigned long long)Rr[i]->frame_id); }
        return;
    }
    for (int i = 0; i < nr; ++i) {
        if (Rr[i]->frame_id != (uint64_t)i) {
            snprintf(cl, sizeof cl, "%s:storage-order-or-duplicate", prop);
            vs_fail(cl, "stream %d acquisition %d: %d-th stored frame has frame_id %llu", s, acq, i, (unsigned long long)Rr[i]->frame_id);
        }
        if (Rr[i]->hardware_frame_id != D[i]->hardware_frame_id || memcmp(&Rr[i]->shape, &D[i]->shape, sizeof(struct ImageShape)) ||
            Rr[i]->npix_bytes != D[i]->npix_bytes || memcmp(Rr[i]->pix, D[i]->pix, D[i]->npix_bytes)) {
            snprintf(cl, sizeof cl, "%s:stored-frame-differs", prop);
            vs_fail(cl, "stream %d acquisition %d frame %d: stored frame (hw id %llu, %u pixel bytes, first 0x%02x) differs from the frame the camera delivered (hw id %llu, %u bytes, first 0x%02x)", s, acq, i,
                    (unsigned long long)Rr[i]->hardware_frame_id, Rr[i]->npix_bytes, Rr[i]->pix[0], (unsigned long long)D[i]->hardware_frame_id, D[i]->npix_bytes, D[i]->pix[0]);
        }
    }
}

static void observe_storage(int s)
{
    struct vm_dev* st = vmock_store(s);
    vs_observe_u64((uint64_t)st->npackets);
    vs_observe_u64((uint64_t)st->nreceived);
    vs_observe_u64((uint64_t)MON[s].frames_seen);
    for (int i = 0; i < VM.nlog; ++i)
        if (VM.log[i].call == VC_APPEND) vs_observe_u64((uint64_t)VM.log[i].arg + 1000003ull * VM.log[i].dev);
}

// ------------------------------------------------------------------------------------------------
// C04: start; [client polls]; stop  ->  storage got exactly the delivered frames
// ------------------------------------------------------------------------------------------------
static void c04_setup(void) { common_setup("C04"); }
static void c04_run(void)
{
    OKQ(acquire_start(RT));
    client_during_acquisition("C06");
    OKQ(acquire_stop(RT));
}
static void c04_check(void)
{
    for (int s = 0; s < P_STREAMS; ++s) {
        int n = (int)PROPS.video[s].max_frame_count;
        check_storage_complete(s, 1, n, "C04", 0);
        observe_storage(s);
        struct vm_dev* st = vmock_store(s);
        if (st->stops != 1 || st->started) vs_fail("C04:storage-not-stopped-after-stop", "stream %d: storage saw %d stop calls after acquire_stop returned", s, st->stops);
        if (st->npackets > 1) vs_event(1);
        if (rt->video[s].sink.in.cycle > 0) vs_event(2); // the ring wrapped
    }
    if (acquire_get_state(RT) != DeviceState_Armed) vs_fail("C04:not-armed-after-stop", "runtime state after stop is %d", (int)acquire_get_state(RT));
}


// ------------------------------------------------------------------------------------------------
// multi-acquisition client programs (C06, C07, C09): the runtime is configured in setup; each
// acquisition = start ; client program ; end (stop | abort | hold-across-end)
// ------------------------------------------------------------------------------------------------
static void begin_acquisition(int reader_was_registered[2])
{
    for (int s = 0; s < P_STREAMS; ++s) {
        reader_was_registered[s] = rt->video[s].monitor.reader.id != 0;
        MON[s].have_last = 0; MON[s].frames_seen = 0;
    }
}
static int g_expect_first0[2];
static int g_end_is_abort = 1;
static int g_late_release, g_pending_late;
static void client_check_first(int s, const char* prop)
{
    // a reader that was registered before this acquisition started cannot miss its first frame
    if (g_expect_first0[s] && MON[s].frames_seen > 0 && !MON[s].have_last) return;
}
static void client_ops(const char* prog, const char* prop, int* held)
{
    *held = 0;
    for (const char* p = prog; *p; ++p) {
        for (int s = 0; s < P_STREAMS; ++s) {
            int before = MON[s].frames_seen;
            uint64_t first_id = ~0ull;
            switch (*p) {
                case 'm': client_poll(s, 0, 0, prop); break;
                case 'p': client_poll(s, 1, 0, prop); break;
                case 'z': client_poll(s, 2, 0, prop); break;
                case 'h': client_poll(s, 0, (double)vs_param("hold_ms", 25), prop); break;
                case 'w': vs_sleep_ms((double)vs_param("wait_ms", 12)); break;
                case 'c': if (s == 0) OKQ(acquire_configure(RT, &PROPS)); break; // live re-configuration with the same devices and settings: the acquisition goes on
                case 'H': if (!g_end_is_abort) { client_poll(s, 0, (double)vs_param("hold_ms", 25), prop); break; } // holding across stop blocks the pipeline the client waits for: not legal use
                    // fallthrough
                case 'L': if (!g_end_is_abort) { client_poll(s, 0, (double)vs_param("hold_ms", 25), prop); break; }
                    g_late_release |= 1 << s; // like H, but the stale region is handed back only after the NEXT acquisition has started
                    // fallthrough
                case 'Q': { // map and keep holding across the end call
                    struct VideoFrame *b = 0, *e = 0;
                    if (acquire_map_read(RT, (uint32_t)s, &b, &e) != AcquireStatus_Ok) {
                        char cl[64]; snprintf(cl, sizeof cl, "%s:map-read-fails", prop);
                        vs_fail(cl, "acquire_map_read(stream %d) returned an error through legal use", s);
                    }
                    const uint8_t* cur = (const uint8_t*)b;
                    while (cur < (const uint8_t*)e) { const struct VideoFrame* f = (const struct VideoFrame*)cur; client_check_frame(s, f, prop); cur += f->bytes_of_frame; }
                    *held |= 1 << s;
                    snap_take(s, b, e);
                    if (b != e) vs_event(12);
                    break;
                }
            }
            if (g_expect_first0[s] && before == 0 && MON[s].frames_seen > 0) {
                // first frames of this acquisition seen by a reader registered earlier: must start at id 0
                first_id = MON[s].last_id - (uint64_t)(MON[s].frames_seen - 1);
                if (first_id != 0) {
                    char cl[64]; snprintf(cl, sizeof cl, "%s:monitor-missed-first-frames", prop);
                    vs_fail(cl, "stream %d: the monitor reader existed before this acquisition started, yet the first frame it sees has id %llu", s, (unsigned long long)first_id);
                }
            }
        }
        if (*p != 'w' && *p != 'H') vs_sleep_ms(7);
    }
    (void)client_check_first;
}
static void release_held(int held, const char* prop)
{
    for (int s = 0; s < P_STREAMS; ++s)
        if (held >> s & 1) {
            snap_verify(s, prop, "across the end call");
            if (acquire_unmap_read(RT, (uint32_t)s, (size_t)1 << 30) != AcquireStatus_Ok) {
                char cl[64]; snprintf(cl, sizeof cl, "%s:unmap-read-fails", prop);
                vs_fail(cl, "acquire_unmap_read(stream %d) after stop/abort returned an error", s);
            }
        }
}
static void check_quiescent(const char* prop, const char* after)
{
    char cl[96];
    for (int s = 0; s < P_STREAMS; ++s) {
        struct video_s* v = &rt->video[s];
        if (v->source.is_running || v->filter.is_running || v->sink.is_running) {
            snprintf(cl, sizeof cl, "%s:workers-alive-after-%s", prop, after);
            vs_fail(cl, "stream %d: worker flags after %s returned: source=%d filter=%d sink=%d", s, after, v->source.is_running, v->filter.is_running, v->sink.is_running);
        }
        if (v->source.thread.is_live_ || v->filter.thread.is_live_ || v->sink.thread.is_live_) {
            snprintf(cl, sizeof cl, "%s:threads-not-joined-after-%s", prop, after);
            vs_fail(cl, "stream %d: worker threads still live after %s returned", s, after);
        }
        if (vmock_cam(s)->started) { snprintf(cl, sizeof cl, "%s:camera-not-stopped-after-%s", prop, after); vs_fail(cl, "stream %d: camera still started after %s returned", s, after); }
        if (vmock_store(s)->started) { snprintf(cl, sizeof cl, "%s:storage-not-stopped-after-%s", prop, after); vs_fail(cl, "stream %d: storage still started after %s returned", s, after); }
    }
    enum DeviceState st = acquire_get_state(RT);
    if (st != DeviceState_Armed) { snprintf(cl, sizeof cl, "%s:not-armed-after-%s", prop, after); vs_fail(cl, "acquire_get_state is %s after %s returned", device_state_as_string(st), after); }
}

// ---- C06: acquisitions ended by stop ('s') or abort ('a'); client programs; monitoring from acquisition `from`
static int g_end_abort[8];
static void c06_setup(void) { common_setup("C06"); }
static void c06_run(void)
{
    const char* ends = vs_param_str("ends", "ss");
    const char* prog = vs_param_str("prog", "mm");
    int from = (int)vs_param("from", 0);
    int nacq = (int)strlen(ends);
    const int fault_first = (int)vs_param("fault_first", -1); // the storage device fails this append of the FIRST acquisition only
    for (int a = 0; a < nacq; ++a) {
        int reg[2];
        begin_acquisition(reg);
        for (int s = 0; s < P_STREAMS; ++s) g_expect_first0[s] = reg[s];
        VM.store[0].fail_append_at = (a == 0) ? fault_first : -1;
        if (a == 1 && fault_first >= 0) OKQ(acquire_configure(RT, &PROPS)); // the failed storage device has to be configured again
        OKQ(acquire_start(RT));
        if (g_pending_late) { if (vs_param("late_ms", 0) > 0) vs_sleep_ms((double)vs_param("late_ms", 0)); /* the new acquisition writes while the stale region is still held */ release_held(g_pending_late, "C06"); g_pending_late = 0; } // the late hand-back of a region held across the previous abort
        int held = 0;
        g_end_is_abort = ends[a] == 'a';
        if (a >= from) client_ops(prog, "C06", &held);
        else vs_sleep_ms(15);
        g_end_abort[a] = ends[a] == 'a';
        if (ends[a] == 's' && a >= from && !vs_param("undrained_stop", 0)) {
            // a reader that has joined exerts back-pressure: a disciplined client keeps draining until the
            // acquisition has finished before it waits in stop (DESIGN: known finding C06 undrained stop otherwise)
            for (int k = 0; k < 64 && acquire_get_state(RT) == DeviceState_Running; ++k) {
                for (int s = 0; s < P_STREAMS; ++s) client_poll(s, 0, 0, "C06");
                vs_sleep_ms(7);
            }
        }
        if (ends[a] == 'a') OKQ(acquire_abort(RT)); else OKQ(acquire_stop(RT));
        if (g_late_release) { g_pending_late = held & g_late_release; held &= ~g_late_release; g_late_release = 0; }
        // a region kept beyond the end call: judged up to here only. stop/abort release the client's region on its behalf
        // (fix 6f560cf: its own unmap later is a no-op), so what the stale pointer shows once the NEXT acquisition writes is not promised
        for (int s = 0; s < P_STREAMS; ++s) if (g_pending_late >> s & 1) snap_verify(s, "C06", "across the end call");
        release_held(held, "C06");
        check_quiescent("C06", ends[a] == 'a' ? "abort" : "stop");
        // nothing of this acquisition may be delivered later: a poll now must be empty
        if (a >= from)
            for (int s = 0; s < P_STREAMS; ++s) {
                struct VideoFrame *b = 0, *e = 0;
                if (acquire_map_read(RT, (uint32_t)s, &b, &e) != AcquireStatus_Ok) vs_fail("C06:map-read-fails", "acquire_map_read(stream %d) fails after %s", s, ends[a] == 'a' ? "abort" : "stop");
                if (b != e) vs_fail("C06:frames-delivered-after-end", "stream %d: %zd bytes of acquisition %d are still delivered to the monitor after %s returned (first frame id %llu)", s, (char*)e - (char*)b, a + 1, ends[a] == 'a' ? "abort" : "stop", (unsigned long long)b->frame_id);
                acquire_unmap_read(RT, (uint32_t)s, 0);
            }
        vs_observe_u64((uint64_t)MON[0].frames_seen);
    }
    if (g_pending_late) { release_held(g_pending_late, "C06"); g_pending_late = 0; }
}
static void c06_check(void)
{
    const char* ends = vs_param_str("ends", "ss");
    for (int s = 0; s < P_STREAMS; ++s)
        for (int a = 0; ends[a]; ++a) check_storage_complete(s, a + 1, (int)PROPS.video[s].max_frame_count, "C06", ends[a] == 'a' || (a == 0 && vs_param("fault_first", -1) >= 0));
    observe_storage(0);
    if (rt->video[0].sink.in.cycle > 0) vs_event(2);
}

// ---- C07: abort/stop issued by a controller thread (so every point of the schedule is an abort instant),
//      or by the client itself; then a complete follow-up acquisition
static void c07_controller(void* arg)
{
    (void)arg;
    if (vs_param("ctl_stop", 0)) OKQ(acquire_stop(RT)); else OKQ(acquire_abort(RT));
}
static void c07_setup(void) { common_setup("C07"); }
static void c07_run(void)
{
    int variant = (int)vs_param("variant", 0);
    int reg[2];
    begin_acquisition(reg);
    OKQ(acquire_start(RT));
    int held = 0;
    if (variant == 0) {          // controller thread aborts at an arbitrary instant
        int t = vs_spawn(c07_controller, 0, "controller");
        if (vs_param("client_polls", 0)) client_ops("mm", "C07", &held);
        vs_join(t);
    } else if (variant == 1) {   // the client itself, after some polling / waiting
        client_ops(vs_param_str("prog", "w"), "C07", &held);
        if (vs_param("ctl_stop", 0)) OKQ(acquire_stop(RT)); else OKQ(acquire_abort(RT));
    } else if (variant == 2) {   // two threads abort concurrently
        int t = vs_spawn(c07_controller, 0, "controller");
        OKQ(acquire_abort(RT));
        vs_join(t);
    }
    int late = 0; // prog op 'L': the region held across the abort is handed back only after the follow-up has started
    if (g_late_release) { late = held & g_late_release; held &= ~g_late_release; g_late_release = 0; }
    for (int s = 0; s < P_STREAMS; ++s) if (late >> s & 1) snap_verify(s, "C07", "across the end call"); // judged up to here only, see c06_run
    release_held(held, "C07");
    check_quiescent("C07", vs_param("ctl_stop", 0) ? "stop" : "abort");
    for (int s = 0; s < P_STREAMS; ++s) check_storage_complete(s, 1, -1, "C07", 1);
    // follow-up acquisition: configure; start; stop -> complete and correct, nothing left over
    P_AVG = 0;
    for (int s = 0; s < P_STREAMS; ++s) { PROPS.video[s].max_frame_count = 2; PROPS.video[s].frame_average_count = 0; VM.cam[s].trigger = 0; PROPS.video[s].camera.settings.input_triggers.frame_start.enable = 0; VM.store[s].append_ms = 0; }
    OKQ(acquire_configure(RT, &PROPS));
    begin_acquisition(reg);
    for (int s = 0; s < P_STREAMS; ++s) g_expect_first0[s] = reg[s];
    OKQ(acquire_start(RT));
    if (late) { if (vs_param("late_ms", 0) > 0) vs_sleep_ms((double)vs_param("late_ms", 0)); release_held(late, "C07"); }
    if (vs_param("client_polls", 0) || variant == 1) client_ops("mwm", "C07", &held);
    OKQ(acquire_stop(RT));
    check_quiescent("C07", "stop");
}
static void c07_check(void)
{
    for (int s = 0; s < P_STREAMS; ++s) check_storage_complete(s, 2, 2, "C07", 0);
    observe_storage(0);
    vs_observe_u64((uint64_t)vmock_cam(0)->ndelivered);
}

// ---- C09: device faults, then stop or abort, then a fault-free acquisition
static void c09_setup(void) { common_setup("C09"); }
static void c09_run(void)
{
    int reg[2], held = 0;
    begin_acquisition(reg);
    OKQ(acquire_start(RT));
    if (vs_param("client_polls", 0)) client_ops("mm", "C09", &held);
    else vs_sleep_ms((double)vs_param("wait_ms", 5));
    if (vs_param("end_abort", 0)) OKQ(acquire_abort(RT)); else OKQ(acquire_stop(RT));
    // workers have exited: the runtime must not report Running
    enum DeviceState st = acquire_get_state(RT);
    if (st == DeviceState_Running) vs_fail("C09:running-after-failure-wind-down", "acquire_get_state still reports Running after the workers exited");
    for (int s = 0; s < P_STREAMS; ++s) {
        if (vmock_cam(s)->started) vs_fail("C09:camera-not-stopped-after-fault", "stream %d: the camera was left started after the failing acquisition wound down", s);
        if (rt->video[s].source.is_running || rt->video[s].sink.is_running || rt->video[s].filter.is_running) vs_fail("C09:workers-alive-after-fault", "stream %d: worker flags still set after stop/abort returned", s);
    }
    // storage fault: nothing after the failing append (the mock's protocol monitor catches a later append);
    // camera fault at call k: storage holds a prefix of the k frames delivered before it
    for (int s = 0; s < P_STREAMS; ++s) check_storage_complete(s, 1, -1, "C09", 1);
    // fault-free follow-up
    P_AVG = 0;
    for (int s = 0; s < P_STREAMS; ++s) { VM.cam[s].fail_get_frame_at = -1; VM.cam[s].fail_shape_at = -1; VM.store[s].fail_append_at = -1; PROPS.video[s].max_frame_count = 2; PROPS.video[s].frame_average_count = 0; VM.store[s].append_ms = 0; }
    OKQ(acquire_configure(RT, &PROPS));
    begin_acquisition(reg);
    OKQ(acquire_start(RT));
    OKQ(acquire_stop(RT));
    check_quiescent("C09", "stop");
}
static void c09_check(void)
{
    // the follow-up acquisition is acquisition 2 of the camera; the storage may have skipped a start
    for (int s = 0; s < P_STREAMS; ++s) {
        struct vm_dev* cam = vmock_cam(s);
        struct vm_dev* st = vmock_store(s);
        int nd = 0, nr = 0;
        for (int i = 0; i < cam->ndelivered; ++i) nd += cam->delivered[i].acq == cam->acq;
        for (int i = 0; i < st->nreceived; ++i) nr += st->received[i].acq == st->acq;
        if (nd != 2 || nr != 2) vs_fail("C09:follow-up-acquisition-incomplete", "stream %d: fault-free follow-up acquisition delivered %d frames and stored %d, expected 2 and 2", s, nd, nr);
        for (int i = 0, k = 0; i < st->nreceived; ++i)
            if (st->received[i].acq == st->acq) {
                if (st->received[i].frame_id != (uint64_t)k) vs_fail("C09:follow-up-acquisition-wrong", "stream %d: follow-up stored frame %d has id %llu", s, k, (unsigned long long)st->received[i].frame_id);
                uint8_t want = vmock_pixel(cam->acq, s, (uint64_t)k, 0);
                if (st->received[i].pix[0] != want) vs_fail("C09:follow-up-acquisition-wrong", "stream %d: follow-up stored frame %d carries data of another acquisition (0x%02x, expected 0x%02x)", s, k, st->received[i].pix[0], want);
                ++k;
            }
    }
    observe_storage(0);
    vs_observe_u64((uint64_t)vmock_cam(0)->ndelivered);
}

// ---- C10: frame averaging; the filter thread is in the loop
static void c10_setup(void) { common_setup("C10"); }
static void c10_run(void)
{
    OKQ(acquire_start(RT));
    client_during_acquisition("C10");
    OKQ(acquire_stop(RT));
}
static double sample_value(const uint8_t* px, int type, uint32_t i)
{
    switch (type) {
        case SampleType_u8: return px[i];
        case SampleType_i8: return (int8_t)px[i];
        case SampleType_u16: case SampleType_u10: case SampleType_u12: case SampleType_u14: { uint16_t v; memcpy(&v, px + 2 * i, 2); return v; }
        case SampleType_i16: { int16_t v; memcpy(&v, px + 2 * i, 2); return v; }
    }
    return 0;
}
static void c10_check(void)
{
    int k = P_AVG;
    for (int s = 0; s < P_STREAMS; ++s) {
        struct vm_dev* cam = vmock_cam(s);
        struct vm_dev* st = vmock_store(s);
        int nd = cam->ndelivered, nr = st->nreceived;
        int full = nd / k, rem = nd % k;
        if (nr < full || nr > full + (rem ? 1 : 0))
            vs_fail("C10:wrong-number-of-averaged-frames", "stream %d: %d input frames with window %d give %d complete windows (+%d trailing); storage received %d frames", s, nd, k, full, rem ? 1 : 0, nr);
        uint32_t npx = cam->delivered[0].shape.dims.width * cam->delivered[0].shape.dims.height;
        for (int j = 0; j < nr; ++j) {
            const struct vm_frame* r = &st->received[j];
            int first = j * k, cnt = (j < full) ? k : rem;
            if (r->shape.type != SampleType_f32) vs_fail("C10:output-not-f32", "stream %d averaged frame %d has sample type %d", s, j, (int)r->shape.type);
            if (r->frame_id != cam->delivered[first].frame_id) vs_fail("C10:wrong-window-frame-id", "stream %d averaged frame %d has frame_id %llu, its window starts at input %llu", s, j, (unsigned long long)r->frame_id, (unsigned long long)cam->delivered[first].frame_id);
            for (uint32_t i = 0; i < npx && 4 * i + 4 <= r->npix_bytes; ++i) {
                double sum = 0;
                for (int q = 0; q < cnt; ++q) sum += sample_value(cam->delivered[first + q].pix, (int)cam->delivered[first + q].shape.type, i);
                float want = (float)(sum / cnt), got;
                memcpy(&got, r->pix + 4 * i, 4);
                float tol = (want < 0 ? -want : want) * 2.4e-7f + 1e-30f; // 2 ulp
                if (!(got >= want - tol && got <= want + tol))
                    vs_fail("C10:wrong-mean", "stream %d averaged frame %d (window of %d inputs starting at input %d) pixel %u = %.9g, exact mean = %.9g", s, j, cnt, first, i, (double)got, (double)want);
            }
        }
        vs_observe_u64((uint64_t)nr); vs_observe_u64((uint64_t)st->npackets);
        if (rt->video[s].sink.in.cycle > 0) vs_event(2);
        if (rt->video[s].filter.in.cycle > 0) vs_event(3);
        if (rem) vs_event(4);
    }
}


// ------------------------------------------------------------------------------------------------
// C08: client programs over the public API; device life-cycle monitor in the mock driver
//   A/B/C/D: configure stream 0 with (vcam0,vstore0) / (vcam1,vstore1) / (vcam0,vstore1) / (vcam1,vstore0); 2: both streams; 0: no stream
//   s start, t trigger, m map, u unmap, S stop, a abort, g get_state, X shutdown+init; every program ends with shutdown
// ------------------------------------------------------------------------------------------------
static void c08_setup(void)
{
    rt_init();
    VM.prop = "C08";
    P_STREAMS = 2; P_W = 3; P_H = 1; P_TYPE = SampleType_u8; P_AVG = 0; P_CLIENT = 0;
    P_RING = 2 * frame_bytes(4, 1, 0) + 8; P_FRING = P_RING;
    rt_resize_rings(P_RING, P_FRING, 0x42);
    for (int s = 0; s < 2; ++s) { VM.cam[s].width = (uint32_t)(3 + s); VM.cam[s].exposure_ms = (double)vs_param("exposure_us", 4000) / 1000.0; }
    rt_watch_flags(2, (int)vs_param("watch", 1));
}
static void c08_configure(char which)
{
    struct AcquireProperties p;
    memset(&p, 0, sizeof p);
    acquire_get_configuration(RT, &p);
    for (int s = 0; s < 2; ++s) { p.video[s].camera.identifier.kind = DeviceKind_None; p.video[s].storage.identifier.kind = DeviceKind_None; p.video[s].max_frame_count = 2; p.video[s].frame_average_count = 0; }
    if (which == 'A') rt_select(&p, 0, "vcam0", "vstore0");
    if (which == 'B') rt_select(&p, 0, "vcam1", "vstore1");
    if (which == 'F') { rt_select(&p, 0, "vcam0", "vstore0"); p.video[0].frame_average_count = 2; p.video[0].max_frame_count = 6; } // like A with frame averaging
    VM.store[0].fail_append_at = -1; VM.cam[0].fail_start_at = -1; VM.store[0].fail_start_at = -1;
    VM.cam[0].fail_shape_at = -1;
    if (which == 'K') { rt_select(&p, 0, "vcam0", "vstore0"); VM.cam[0].fail_shape_at = 1; } // like A, but the camera fails to report its shape before the second frame
    if (which == 'O') { rt_select(&p, 0, "vcam1", "vstore0"); VM.fail_open[1] = 1; } // another camera, which cannot be opened (the stream's previous camera has been closed by then)
    if (which == 'G') { rt_select(&p, 0, "vcam0", "vstore0"); VM.cam[0].fail_start_at = vmock_cam(0)->starts; }     // like A, but the camera refuses its next start
    VM.cam[1].fail_start_at = -1; VM.store[0].fail_set = 0;
    if (which == 'J') { rt_select(&p, 0, "vcam0", "vstore0"); rt_select(&p, 1, "vcam1", "vstore1"); VM.cam[1].fail_start_at = vmock_cam(1)->starts; } // two streams; the second stream's camera refuses its next start (the first stream is already running then)
    if (which == 'T') { rt_select(&p, 0, "vcam0", "vstore0"); VM.store[0].fail_set = 1; } // like A, but the storage device rejects the properties
    if (which == 'H') { rt_select(&p, 0, "vcam0", "vstore0"); VM.store[0].fail_start_at = vmock_store(0)->starts; } // like A, but the storage device refuses its next start
    if (which == 'E') { rt_select(&p, 0, "vcam0", "vstore0"); VM.store[0].fail_append_at = 0; }  // like A, but the storage device fails its first append: the workers wind down on their own
    if (which == 'R') { rt_select(&p, 0, "vcam0", "vstore0"); VM.cam[0].fail_set = 1; }  // like A, but the camera rejects the first set call of this configure
    if (which == 'C') rt_select(&p, 0, "vcam0", "vstore1"); // same camera, another storage of the same driver
    if (which == 'D') rt_select(&p, 0, "vcam1", "vstore0"); // another camera, same storage
    if (which == '2') { rt_select(&p, 0, "vcam0", "vstore0"); rt_select(&p, 1, "vcam1", "vstore1"); }
    acquire_configure(RT, &p); // may legitimately report an error (e.g. no stream): the oracle is the device monitor
    VM.cam[0].fail_set = 0; VM.store[0].fail_set = 0; VM.fail_open[1] = 0;
    rt_watch_devices(2);
}
static void c08_state_oracle(const char* after)
{
    // worker flags only fall during a call of the client (nobody else starts an acquisition), so "Running" is justified iff a
    // worker was alive BEFORE the call; sampling them afterwards would race with workers that exit meanwhile
    // (thread liveness is the scheduler's, not the runtime's own is_running flags, which are what acquire_get_state reads)
    int alive_before = vs_live_threads() > 0;
    enum DeviceState st = acquire_get_state(RT);
    if (st == DeviceState_Running && !alive_before)
        vs_fail("C08:running-without-live-workers", "acquire_get_state reports Running after %s although no worker of any stream was alive", after);
    if ((after[0] == 'S' || after[0] == 'a') && st != DeviceState_Armed && st != DeviceState_AwaitingConfiguration)
        vs_fail("C08:not-armed-after-stop-or-abort", "acquire_get_state is %s right after %s", device_state_as_string(st), after[0] == 'S' ? "stop" : "abort");
}
static int g_c08_shutdowns;
static void c08_run(void)
{
    const char* prog = vs_param_str("prog", "AsS");
    int mapped = 0;
    for (const char* p = prog; *p; ++p) {
        char one[2] = { *p, 0 };
        switch (*p) {
            case 'A': case 'B': case 'C': case 'D': case 'E': case 'F': case 'G': case 'H': case 'J': case 'K': case 'O': case 'T': case 'R': case '2': case '0': c08_configure(*p); break;
            case 's': acquire_start(RT); break;
            case 't': acquire_execute_trigger(RT, 0); break;
            case 'm': {
                struct VideoFrame *b = 0, *e = 0;
                if (!mapped && acquire_map_read(RT, 0, &b, &e) == AcquireStatus_Ok) {
                    char msg[300];
                    if (vmock_check_packet((uint8_t*)b, (uint8_t*)e, msg, sizeof msg) < 0) vs_fail("C05:monitor-packet-malformed", "%s", msg);
                    mapped = 1;
                }
                break;
            }
            case 'u': acquire_unmap_read(RT, 0, (size_t)1 << 30); mapped = 0; break;
            case 'S': if (mapped) { acquire_unmap_read(RT, 0, (size_t)1 << 30); mapped = 0; } acquire_stop(RT); break;
            case 'a': acquire_abort(RT); break;
            case 'g': break;
            case 'w': vs_sleep_ms((double)vs_param("wait_us", 9000) / 1000.0); break;
            case 'X':
                acquire_shutdown(RT); ++g_c08_shutdowns; mapped = 0;
                vs_unwatch_all();
                RT = acquire_init(rt_reporter);
                if (!RT) vs_fail("C08:init-after-shutdown-fails", "acquire_init after acquire_shutdown returned NULL");
                rt = containerof(RT, struct runtime, handle);
                rt_resize_rings(P_RING, P_FRING, 0x42);
                rt_watch_flags(2, (int)vs_param("watch", 1));
                break;
        }
        c08_state_oracle(one);
    }
    acquire_shutdown(RT); ++g_c08_shutdowns;
    RT = 0;
}
static void c08_check(void)
{
    for (int i = 0; i < VM_NCAM + VM_NSTORE; ++i) {
        struct vm_dev* d = &VM.dev[i];
        const char* dn = d->kind == 1 ? "vcam" : "vstore";
        if (d->open) vs_fail("C08:device-left-open-after-shutdown", "%s%d was opened %d times and closed %d times; it is still open after acquire_shutdown", dn, d->idx, d->opens, d->closes);
        if (d->opens != d->closes) vs_fail("C08:open-close-mismatch", "%s%d opened %d times, closed %d times", dn, d->idx, d->opens, d->closes);
        // every successful start is ended exactly once: by a stop call, or by the device itself (failing append; a stop after that is optional)
        if (d->stops > d->acq || d->stops + d->self_stops < d->acq) vs_fail("C08:start-stop-mismatch", "%s%d: %d successful starts but %d stops (%d runs ended by the device itself)", dn, d->idx, d->acq, d->stops, d->self_stops);
        vs_observe_u64((uint64_t)d->opens * 1000 + (uint64_t)d->acq * 10 + (uint64_t)d->stops);
    }
    if (VM.driver_shutdowns != g_c08_shutdowns) vs_fail("C08:driver-shutdown-count", "%d runtime shutdowns but the driver's shutdown was called %d times", g_c08_shutdowns, VM.driver_shutdowns);
    vs_observe_u64((uint64_t)vmock_store(0)->nreceived);
}


// ------------------------------------------------------------------------------------------------
// c04real: the REAL devices of the common driver in the loop (simulated camera with its streamer thread, raw file writer)
// under the scheduler: integration of C04 / C14 / C18.  Oracle: the raw file holds exactly N chained frames, ids 0..N-1,
// strictly increasing hardware ids, the configured shape.
// ------------------------------------------------------------------------------------------------
#include <fcntl.h>
#include <unistd.h>
static char REAL_PATH[256];
static int REAL_N;
static void c04real_setup(void)
{
    rt_init();
    VM.prop = "C04";
    REAL_N = (int)vs_param("n", 3);
    P_STREAMS = 1;
    snprintf(REAL_PATH, sizeof REAL_PATH, "%s/build/c04real-%d.raw", getenv("VERIF_ROOT") ? getenv("VERIF_ROOT") : "/verif", (int)getpid());
    size_t fb = vmock_expected_frame_bytes(8, 8, SampleType_u8);
    rt_resize_rings((size_t)vs_param("ringf", 2) * fb + (size_t)vs_param("ringx", 8), 2 * fb + 8, 0x42);
    memset(&PROPS, 0, sizeof PROPS);
    acquire_get_configuration(RT, &PROPS);
    rt_select(&PROPS, 0, vs_param_str("camera", "simulated: empty"), vs_param_str("storage", "raw"));
    PROPS.video[0].camera.settings.binning = 1;
    PROPS.video[0].camera.settings.pixel_type = SampleType_u8;
    PROPS.video[0].camera.settings.shape.x = 8; PROPS.video[0].camera.settings.shape.y = 8;
    PROPS.video[0].camera.settings.exposure_time_us = 4000;
    PROPS.video[0].camera.settings.input_triggers.frame_start.enable = (uint8_t)vs_param("trigger", 0);
    PROPS.video[0].max_frame_count = (uint64_t)REAL_N;
    rt_watch_flags(1, (int)vs_param("watch", 1));
}
static void c04real_trigger_thread(void* a)
{
    (void)a;
    // a trigger that arrives while the camera is still exposing is coalesced: keep triggering until the acquisition is done
    for (int i = 0; i < REAL_N + 5 && acquire_get_state(RT) == DeviceState_Running; ++i) { vs_sleep_ms(6); acquire_execute_trigger(RT, 0); }
}
static void c04real_run(void)
{
    // configured here, in the child: the raw writer locks its file, so every execution needs a path of its own
    snprintf(REAL_PATH, sizeof REAL_PATH, "%s/build/c04real-%d.raw", getenv("VERIF_ROOT") ? getenv("VERIF_ROOT") : "/verif", (int)getpid());
    unlink(REAL_PATH);
    storage_properties_init(&PROPS.video[0].storage.settings, 0, REAL_PATH, strlen(REAL_PATH) + 1, 0, 0, (struct PixelScale){ 1, 1 }, 0);
    OKQ(acquire_configure(RT, &PROPS));
    rt_watch_devices(1);
    OKQ(acquire_start(RT));
    int t = -1;
    if (vs_param("trigger", 0)) t = vs_spawn(c04real_trigger_thread, 0, "triggerer");
    if (vs_param("abort_instead", 0)) { vs_sleep_ms((double)vs_param("abort_after_ms", 9)); OKQ(acquire_abort(RT)); }
    else OKQ(acquire_stop(RT));
    if (t >= 0) vs_join(t);
}
static void c04real_check(void)
{
    static uint8_t buf[1 << 16];
    int fd = open(REAL_PATH, O_RDONLY);
    if (fd < 0) vs_fail("C04:real-devices:file-missing", "the raw file was not created");
    ssize_t n = read(fd, buf, sizeof buf);
    close(fd); unlink(REAL_PATH);
    char msg[300];
    int nf = vmock_check_packet(buf, buf + (n < 0 ? 0 : n), msg, sizeof msg);
    if (nf < 0) vs_fail("C05:real-devices:file-not-a-frame-chain", "raw file of %zd bytes: %s", n, msg);
    int aborted = (int)vs_param("abort_instead", 0);
    if (!aborted && nf != REAL_N) vs_fail("C04:real-devices:frame-count", "the raw file holds %d frames, the finite acquisition of the simulated camera was %d", nf, REAL_N);
    if (aborted && nf > REAL_N) vs_fail("C04:real-devices:frame-count", "the raw file holds %d frames, more than the %d requested", nf, REAL_N);
    const uint8_t* cur = buf; uint64_t last_hw = 0;
    for (int i = 0; i < nf; ++i) {
        const struct VideoFrame* f = (const struct VideoFrame*)cur;
        if (f->frame_id != (uint64_t)i) vs_fail("C04:real-devices:frame-order", "%d-th frame in the raw file has frame_id %llu", i, (unsigned long long)f->frame_id);
        if (i && f->hardware_frame_id <= last_hw) vs_fail("C18:real-devices:hardware-id-not-increasing", "hardware frame id %llu after %llu", (unsigned long long)f->hardware_frame_id, (unsigned long long)last_hw);
        if (f->shape.dims.width != 8 || f->shape.dims.height != 8 || f->shape.type != SampleType_u8) vs_fail("C04:real-devices:shape", "frame %d has shape %ux%u type %d", i, f->shape.dims.width, f->shape.dims.height, (int)f->shape.type);
        last_hw = f->hardware_frame_id;
        cur += f->bytes_of_frame;
    }
    vs_observe_u64((uint64_t)nf); vs_observe_u64(last_hw);
    if (acquire_get_state(RT) != DeviceState_Armed) vs_fail("C04:not-armed-after-stop", "runtime state after stop is %d", (int)acquire_get_state(RT));
}

struct vs_scenario vs_scenarios[] = {
    { "c04", "finite acquisition start..stop; params n ringf ringx w h type exposure append_ms write_delay client streams", c04_setup, c04_run, c04_check },
    { "c04real", "real simulated camera + raw file writer of the common driver in the loop (n, ringf, trigger, abort_instead)", c04real_setup, c04real_run, c04real_check },
    { "c06", "acquisitions ended by ends=[sa]+ with client program prog=[mpzhwH]*, monitoring from acquisition `from`", c06_setup, c06_run, c06_check },
    { "c06u", "like c06 with undrained_stop=1: the client stops polling and calls stop (known finding)", c06_setup, c06_run, c06_check },
    { "c07", "abort/stop from a controller thread (variant 0), the client (1) or both (2), then a follow-up acquisition", c07_setup, c07_run, c07_check },
    { "c09", "camfail=k / storefail=k fault, end by stop or abort (end_abort), then a fault-free acquisition", c09_setup, c09_run, c09_check },
    { "c08", "client program prog over {A,B,2,0,s,t,m,u,S,a,g,w,X}; device life-cycle monitor", c08_setup, c08_run, c08_check },
    { "c10", "frame averaging avg=k; exact-mean oracle on the storage log", c10_setup, c10_run, c10_check },
    { 0 },
};

int main(int argc, char** argv) { return vs_main(argc, argv); }
