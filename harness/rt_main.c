// E2 runtime scenarios (C04..C10): the real acquire.c/source.c/sink.c/filter.c/channel.c, HAL,
// loader, device manager and linux/platform.c under the controlled scheduler, with the recording
// mock driver as camera and storage.
#include "rt_common.h"

// ------------------------------------------------------------------------------------------------
// common scenario plumbing
// ------------------------------------------------------------------------------------------------
static int P_N, P_STREAMS, P_CLIENT, P_W, P_H, P_TYPE, P_AVG;
static size_t P_RING, P_FRING;
static struct AcquireProperties PROPS;

// client kinds
enum { CL_NONE = 0, CL_FAST, CL_SLOW, CL_PARTIAL, CL_HOLD };

static size_t frame_bytes(int w, int h, int type) { return vmock_expected_frame_bytes((uint32_t)w, (uint32_t)h, type); }

static void common_setup(const char* prop)
{
    rt_init();
    VM.prop = prop;
    P_N = (int)vs_param("n", 3);
    P_STREAMS = (int)vs_param("streams", 1);
    P_CLIENT = (int)vs_param("client", CL_NONE);
    P_W = (int)vs_param("w", 3); P_H = (int)vs_param("h", 1); P_TYPE = (int)vs_param("type", SampleType_u8);
    P_AVG = (int)vs_param("avg", 0);
    size_t fb = frame_bytes(P_W, P_H, P_TYPE);
    // ring = ringf whole frames + ringx extra bytes (so every wrap position relative to the reader occurs)
    P_RING = (size_t)vs_param("ringf", 2) * fb + (size_t)vs_param("ringx", 8);
    size_t ffb = frame_bytes(P_W, P_H, P_TYPE);
    P_FRING = (size_t)vs_param("fringf", 2) * ffb + (size_t)vs_param("fringx", 8);
    if (P_AVG > 1) { // the sink ring carries f32 frames when averaging
        size_t ofb = frame_bytes(P_W, P_H, SampleType_f32);
        P_RING = (size_t)vs_param("ringf", 2) * ofb + (size_t)vs_param("ringx", 8);
    }
    rt_resize_rings(P_RING, P_FRING, (int)vs_param("prefill", 0xA5));
    for (int s = 0; s < 2; ++s) {
        VM.cam[s].width = (uint32_t)(s == 0 ? P_W : vs_param("w1", P_W + 1));
        VM.cam[s].height = (uint32_t)P_H;
        VM.cam[s].type = P_TYPE;
        VM.cam[s].exposure_ms = (double)vs_param(s ? "exposure1" : "exposure", 10);
        VM.cam[s].trigger = (int)vs_param("trigger", 0);
        VM.cam[s].fail_get_frame_at = (int)vs_param(s ? "camfail1" : "camfail", -1);
        VM.store[s].append_ms = (double)vs_param(s ? "append_ms1" : "append_ms", 0);
        VM.store[s].fail_append_at = (int)vs_param(s ? "storefail1" : "storefail", -1);
    }
    memset(&PROPS, 0, sizeof PROPS);
    acquire_get_configuration(RT, &PROPS);
    for (int s = 0; s < P_STREAMS; ++s) {
        rt_select(&PROPS, s, s ? "vcam1" : "vcam0", s ? "vstore1" : "vstore0");
        PROPS.video[s].max_frame_count = (uint64_t)(s == 0 ? P_N : vs_param("n1", P_N + 1));
        PROPS.video[s].frame_average_count = (uint32_t)P_AVG;
        PROPS.video[s].storage.write_delay_ms = (float)vs_param("write_delay", 0);
        PROPS.video[s].camera.settings.input_triggers.frame_start.enable = (uint8_t)vs_param("trigger", 0);
    }
    if (acquire_configure(RT, &PROPS) != AcquireStatus_Ok) { fprintf(stderr, "harness: acquire_configure failed in setup\n"); exit(2); }
    rt_watch_flags(P_STREAMS, (int)vs_param("watch", 1));
}

// ---- client-side monitoring (C06 oracle lives here; used by C04/C05 as the "client pace" axis) ---
struct mon_state { int have_last; uint64_t last_id; int frames_seen; int acq; };
static struct mon_state MON[2];
static int g_acq_no[2]; // acquisition number per stream as the client counts starts (== mock acq for the first device)

static void client_check_frame(int s, const struct VideoFrame* f, const char* prop)
{
    // the camera that produced it and this acquisition's payload function
    struct vm_dev* cam = vmock_cam(s);
    int acq = cam->acq;
    if (P_AVG <= 1) {
        size_t need = (size_t)f->shape.dims.width * f->shape.dims.height;
        for (uint32_t i = 0; i < need && i < 64; ++i) {
            uint8_t want = vmock_pixel(acq, s, f->hardware_frame_id, i);
            if (f->data[i] != want) {
                char cl[64];
                snprintf(cl, sizeof cl, "%s:monitor-wrong-or-stale-pixels", prop);
                vs_fail(cl, "stream %d: monitor frame id %llu byte %u is 0x%02x, acquisition %d's frame has 0x%02x (stale frame of an earlier acquisition or altered data)", s, (unsigned long long)f->frame_id, i, f->data[i], acq, want);
            }
        }
    }
    struct mon_state* m = &MON[s];
    if (m->have_last && f->frame_id != m->last_id + 1) {
        char cl[64];
        snprintf(cl, sizeof cl, "%s:monitor-gap-or-repeat", prop);
        vs_fail(cl, "stream %d: monitor saw frame id %llu after %llu", s, (unsigned long long)f->frame_id, (unsigned long long)m->last_id);
    }
    m->have_last = 1; m->last_id = f->frame_id; m->frames_seen++;
}

// one monitor poll; mode: 0 consume all, 1 consume first frame only, 2 consume nothing
static int client_poll(int s, int mode, double hold_ms, const char* prop)
{
    struct VideoFrame *beg = 0, *end = 0;
    if (acquire_map_read(RT, (uint32_t)s, &beg, &end) != AcquireStatus_Ok) {
        char cl[64];
        snprintf(cl, sizeof cl, "%s:map-read-fails", prop);
        vs_fail(cl, "acquire_map_read(stream %d) returned an error through legal use", s);
    }
    char msg[300];
    int nf = vmock_check_packet((uint8_t*)beg, (uint8_t*)end, msg, sizeof msg);
    if (nf < 0) vs_fail("C05:monitor-packet-malformed", "region mapped by the client on stream %d: %s", s, msg);
    size_t consumed = 0;
    const uint8_t* cur = (const uint8_t*)beg;
    int k = 0;
    for (; k < nf; ++k) {
        const struct VideoFrame* f = (const struct VideoFrame*)cur;
        if (mode == 2) break;
        client_check_frame(s, f, prop);
        cur += f->bytes_of_frame;
        consumed += f->bytes_of_frame;
        if (mode == 1) { ++k; break; }
    }
    if (nf > 1 && mode == 1) vs_event(10); // partial consumption of a multi-frame region
    if (nf > 0) vs_event(11);
    if (hold_ms > 0) vs_sleep_ms(hold_ms);
    if (acquire_unmap_read(RT, (uint32_t)s, consumed) != AcquireStatus_Ok) {
        char cl[64];
        snprintf(cl, sizeof cl, "%s:unmap-read-fails", prop);
        vs_fail(cl, "acquire_unmap_read(stream %d) returned an error", s);
    }
    return nf;
}

static void client_during_acquisition(const char* prop)
{
    if (P_CLIENT == CL_NONE) return;
    int polls = 0;
    while (acquire_get_state(RT) == DeviceState_Running && polls < 64) {
        for (int s = 0; s < P_STREAMS; ++s) {
            switch (P_CLIENT) {
                case CL_FAST: client_poll(s, 0, 0, prop); break;
                case CL_SLOW: client_poll(s, 0, 0, prop); break;
                case CL_PARTIAL: client_poll(s, 1, 0, prop); break;
                case CL_HOLD: client_poll(s, 0, (double)vs_param("hold_ms", 25), prop); break;
            }
        }
        vs_sleep_ms(P_CLIENT == CL_SLOW ? 35 : 7);
        ++polls;
    }
}

// ---- storage oracle (C04): storage log == frames the camera delivered, in order, bit-exact -------
static void check_storage_complete(int s, int acq, int expect_n, const char* prop, int prefix_ok)
{
    struct vm_dev* cam = vmock_cam(s);
    struct vm_dev* st = vmock_store(s);
    char cl[96];
    int nd = 0, nr = 0;
    const struct vm_frame *D[VM_MAXFRAMES], *Rr[VM_MAXFRAMES];
    for (int i = 0; i < cam->ndelivered; ++i) if (cam->delivered[i].acq == acq) D[nd++] = &cam->delivered[i];
    for (int i = 0; i < st->nreceived; ++i) if (st->received[i].acq == acq) Rr[nr++] = &st->received[i];
    if (!prefix_ok && expect_n >= 0 && nd != expect_n) {
        snprintf(cl, sizeof cl, "%s:camera-frame-count", prop);
        vs_fail(cl, "stream %d acquisition %d: camera delivered %d frames, the finite acquisition asked for %d", s, acq, nd, expect_n);
    }
    if (nr > nd) {
        snprintf(cl, sizeof cl, "%s:storage-got-more-than-delivered", prop);
        vs_fail(cl, "stream %d acquisition %d: storage received %d frames, the camera delivered only %d", s, acq, nr, nd);
    }
    if (!prefix_ok && nr != nd) {
        snprintf(cl, sizeof cl, "%s:frames-missing-at-storage", prop);
        vs_fail(cl, "stream %d acquisition %d: camera delivered %d frames but storage received %d (last stored id %lld)", s, acq, nd, nr, nr ? (long long)Rr[nr - 1]->frame_id : -1LL);
    }
    for (int i = 0; i < nr; ++i) {
        if (Rr[i]->frame_id != (uint64_t)i) {
            snprintf(cl, sizeof cl, "%s:storage-order-or-duplicate", prop);
            vs_fail(cl, "stream %d acquisition %d: %d-th stored frame has frame_id %llu", s, acq, i, (unsigned long long)Rr[i]->frame_id);
        }
        if (Rr[i]->hardware_frame_id != D[i]->hardware_frame_id || memcmp(&Rr[i]->shape, &D[i]->shape, sizeof(struct ImageShape)) ||
            Rr[i]->npix_bytes != D[i]->npix_bytes || memcmp(Rr[i]->pix, D[i]->pix, D[i]->npix_bytes)) {
            snprintf(cl, sizeof cl, "%s:stored-frame-differs", prop);
            vs_fail(cl, "stream %d acquisition %d frame %d: stored frame (hw id %llu, %u pixel bytes, first 0x%02x) differs from the frame the camera delivered (hw id %llu, %u bytes, first 0x%02x)", s, acq, i,
                    (unsigned long long)Rr[i]->hardware_frame_id, Rr[i]->npix_bytes, Rr[i]->pix[0], (unsigned long long)D[i]->hardware_frame_id, D[i]->npix_bytes, D[i]->pix[0]);
        }
    }
}

static void observe_storage(int s)
{
    struct vm_dev* st = vmock_store(s);
    vs_observe_u64((uint64_t)st->npackets);
    vs_observe_u64((uint64_t)st->nreceived);
    vs_observe_u64((uint64_t)MON[s].frames_seen);
    for (int i = 0; i < VM.nlog; ++i)
        if (VM.log[i].call == VC_APPEND) vs_observe_u64((uint64_t)VM.log[i].arg + 1000003ull * VM.log[i].dev);
}

// ------------------------------------------------------------------------------------------------
// C04: start; [client polls]; stop  ->  storage got exactly the delivered frames
// ------------------------------------------------------------------------------------------------
static void c04_setup(void) { common_setup("C04"); }
static void c04_run(void)
{
    OKQ(acquire_start(RT));
    client_during_acquisition("C06");
    OKQ(acquire_stop(RT));
}
static void c04_check(void)
{
    for (int s = 0; s < P_STREAMS; ++s) {
        int n = (int)PROPS.video[s].max_frame_count;
        check_storage_complete(s, 1, n, "C04", 0);
        observe_storage(s);
        struct vm_dev* st = vmock_store(s);
        if (st->stops != 1 || st->started) vs_fail("C04:storage-not-stopped-after-stop", "stream %d: storage saw %d stop calls after acquire_stop returned", s, st->stops);
        if (st->npackets > 1) vs_event(1);
        if (rt->video[s].sink.in.cycle > 0) vs_event(2); // the ring wrapped
    }
    if (acquire_get_state(RT) != DeviceState_Armed) vs_fail("C04:not-armed-after-stop", "runtime state after stop is %d", (int)acquire_get_state(RT));
}

struct vs_scenario vs_scenarios[] = {
    { "c04", "finite acquisition start..stop; params n ringf ringx w h type exposure append_ms write_delay client streams", c04_setup, c04_run, c04_check },
    { 0 },
};

int main(int argc, char** argv) { return vs_main(argc, argv); }
