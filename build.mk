# Shared build rules: compile the repository's sources FROM $(REPO)'s working tree into
# $(B) (= /verif/build/<flavour>) with path-prefixed object names (two different storage.c
# exist).  Used by every check before it runs, so checks always see the current tree.
#
#   make -f build.mk FLAVOUR=plain|asan|cov [REPO=/repo] <target>
#
REPO    ?= /repo
FLAVOUR ?= plain
V       ?= /verif
# build dir is keyed by the repo path so a scratch copy (mutant runs) never mixes objects
RKEY    := $(shell echo $(REPO) | md5sum | cut -c1-8)
B       := $(V)/build/$(FLAVOUR)-$(RKEY)

GUARD   := -DACQUIRE_COMMON_VERIF

INC := -I$(REPO)/acquire-core-libs/src/acquire-core-logger \
       -I$(REPO)/acquire-core-libs/src/acquire-core-platform/linux \
       -I$(REPO)/acquire-core-libs/src/acquire-device-properties \
       -I$(REPO)/acquire-core-libs/src/acquire-device-kit \
       -I$(REPO)/acquire-core-libs/src/acquire-device-hal \
       -I$(REPO)/acquire-video-runtime/src \
       -I$(REPO)/acquire-driver-common/src \
       -I$(REPO)/acquire-driver-common/src/simcams/3rdParty/pcg-c-basic-0.9 \
       -I$(V)/engines -I$(V)/engines/vsched -I$(V)/mock -I$(V)/oracles -I$(V)/harness

ifeq ($(FLAVOUR),plain)
  CC := gcc
  CXX := g++
  FL := -O2 -g
endif
ifeq ($(FLAVOUR),asan)
  CC := clang
  CXX := clang++
  FL := -O1 -g -fsanitize=address -fsanitize-recover=address -fno-omit-frame-pointer
endif
ifeq ($(FLAVOUR),cov)
  CC := clang
  CXX := clang++
  # no vectorisation: clang's trace-loads/trace-stores pass skips vector accesses, so two adjacent flag stores that the SLP vectoriser
  # merges into one 16-byte store would get no callback and never become a scheduling point (found with seed C18 round 9)
  FL := -O2 -g -fno-slp-vectorize -fno-vectorize -fno-builtin-memset -fno-builtin-memcpy
  # only repository sources get the load/store callbacks (scheduling points on watched flags)
  COV := -fsanitize-coverage=trace-pc-guard,trace-loads,trace-stores
endif
ifeq ($(FLAVOUR),tsan)
  CC := clang
  CXX := clang++
  FL := -O1 -g -fsanitize=thread
endif

CFLAGS   := $(FL) -std=gnu11 -fPIC -mavx2 -DNO_UNIT_TESTS $(GUARD) $(INC) -w
CXXFLAGS := $(FL) -std=gnu++20 -fPIC -mavx2 -DNO_UNIT_TESTS $(GUARD) $(INC) -w

CORE := acquire-core-libs/src/acquire-core-logger/logger.c \
        acquire-core-libs/src/acquire-core-platform/linux/platform.c \
        acquire-core-libs/src/acquire-device-properties/device/props/device.c \
        acquire-core-libs/src/acquire-device-properties/device/props/storage.c \
        acquire-core-libs/src/acquire-device-properties/device/props/components.c
HAL  := acquire-core-libs/src/acquire-device-hal/device/hal/camera.c \
        acquire-core-libs/src/acquire-device-hal/device/hal/driver.c \
        acquire-core-libs/src/acquire-device-hal/device/hal/loader.c \
        acquire-core-libs/src/acquire-device-hal/device/hal/storage.c \
        acquire-core-libs/src/acquire-device-hal/device/hal/device.manager.cpp
RT   := acquire-video-runtime/src/runtime/channel.c \
        acquire-video-runtime/src/runtime/throttler.c \
        acquire-video-runtime/src/runtime/source.c \
        acquire-video-runtime/src/runtime/filter.c \
        acquire-video-runtime/src/runtime/sink.c \
        acquire-video-runtime/src/runtime/vfslice.c \
        acquire-video-runtime/src/runtime/frame_iterator.c
# acquire.c is #included by harness TUs that need struct runtime; listed for completeness
RTAPI := acquire-video-runtime/src/acquire.c
# simulated.camera.c is compiled stand-alone here; harnesses that need its private struct
# #include it from a TU of their own instead.
DRV  := acquire-driver-common/src/basics.driver.c \
        acquire-driver-common/src/simcams/simulated.camera.c \
        acquire-driver-common/src/simcams/popcount.cpp \
        acquire-driver-common/src/simcams/imfill.pattern.cpp \
        acquire-driver-common/src/simcams/3rdParty/pcg-c-basic-0.9/pcg_basic.c \
        acquire-driver-common/src/storage/basic.storage.c \
        acquire-driver-common/src/storage/raw.c \
        acquire-driver-common/src/storage/side-by-side-tiff.cpp \
        acquire-driver-common/src/storage/tiff.cpp \
        acquire-driver-common/src/storage/trash.c

obj = $(addprefix $(B)/repo/,$(addsuffix .o,$(subst /,__,$(1))))

CORE_O := $(call obj,$(CORE))
HAL_O  := $(call obj,$(HAL))
RT_O   := $(call obj,$(RT))
RTAPI_O:= $(call obj,$(RTAPI))
DRV_O  := $(call obj,$(DRV))

.SECONDEXPANSION:
# repo object rule: $(B)/repo/<path with __>.o  <-  $(REPO)/<path>
$(B)/repo/%.c.o: $$(REPO)/$$(subst __,/,$$*).c $(V)/build.mk
	@mkdir -p $(dir $@)
	$(CC) $(CFLAGS) $(COV) -MMD -MP -c $< -o $@
$(B)/repo/%.cpp.o: $$(REPO)/$$(subst __,/,$$*).cpp $(V)/build.mk
	@mkdir -p $(dir $@)
	$(CXX) $(CXXFLAGS) $(COV) -MMD -MP -c $< -o $@

# verif-side objects (never get the coverage callbacks)
$(B)/v/%.c.o: $(V)/%.c $(V)/build.mk
	@mkdir -p $(dir $@)
	$(CC) $(CFLAGS) -MMD -MP -c $< -o $@
$(B)/v/%.cpp.o: $(V)/%.cpp $(V)/build.mk
	@mkdir -p $(dir $@)
	$(CXX) $(CXXFLAGS) -MMD -MP -c $< -o $@
# verif-side TUs that #include repository sources and therefore want the callbacks too
$(B)/vc/%.c.o: $(V)/%.c $(V)/build.mk
	@mkdir -p $(dir $@)
	$(CC) $(CFLAGS) $(COV) -MMD -MP -c $< -o $@
$(B)/vc/%.cpp.o: $(V)/%.cpp $(V)/build.mk
	@mkdir -p $(dir $@)
	$(CXX) $(CXXFLAGS) $(COV) -MMD -MP -c $< -o $@

-include $(shell find $(B) -name '*.d' 2>/dev/null)
