#!/bin/bash
# For every "fixed:" entry of known_findings.txt: re-introduce the defect (reverse-apply the fix commit on a scratch worktree)
# and run the property's quick check: it must report a violation again.  Output: one line per fix.
cd /verif
grep '^fixed:' known_findings.txt | while read -r _ prop commit rest; do
  p=${prop#property=}
  fp=$(echo "$rest" | sed -n 's/^fingerprint=\([^ ]*\).*/\1/p')
  git -C /repo diff $commit^ $commit > /tmp/rev.$commit.diff
  S=/tmp/rev.$$.$commit
  git -C /repo worktree add --detach $S HEAD >/dev/null 2>&1
  if ! git -C $S apply -R /tmp/rev.$commit.diff 2>/dev/null; then echo "$p $commit REVERT-DOES-NOT-APPLY (later fixes touch the same lines)"; git -C /repo worktree remove --force $S; continue; fi
  K=$(echo $S | md5sum | cut -c1-8)
  out=$(REPO=$S VERIF_DEADLINE_S=400 ./vcheck $p --tier quick 2>&1); rc=$?
  hit=$(echo "$out" | grep -c "$fp")
  echo "$p $commit rc=$rc same-fingerprint=$hit $(echo "$out" | grep -E '^  C' | head -2 | cut -c1-160 | tr '\n' '|')"
  git -C /repo worktree remove --force $S; rm -rf /verif/build/*-$K /tmp/rev.$commit.diff
done
