#!/bin/bash
# confirm_seed.sh <id>: confirms a seeded change held in /tmp/seedout/<id>: applies its patch to a scratch worktree of /repo HEAD,
# runs the pinned test suite on it, runs its demonstration on the changed and on the clean tree; writes /tmp/seedout/<id>/confirm.json
id=$1; ROOT=${SEEDROOT:-/tmp/seedout}; D=$ROOT/$id; S=/tmp/confirm.$id
P=$D/patch.diff; [ -f $D/patch.rebased.diff ] && P=$D/patch.rebased.diff
git -C /repo worktree add --detach $S HEAD >/dev/null 2>&1 || exit 2
cd $S
clean_rc=none; changed_rc=none; base=none
# demo on the clean tree first
if [ -x $D/run_demo.sh ] || [ -f $D/run_demo.sh ]; then (cd $D && timeout 900 bash ./run_demo.sh $S >$D/demo.clean.log 2>&1); clean_rc=$?; fi
git apply $P || { echo "{\"id\":\"$id\",\"applies\":false}" > $D/confirm.json; git -C /repo worktree remove --force $S; exit 3; }
if [ -f $D/run_demo.sh ]; then (cd $D && timeout 900 bash ./run_demo.sh $S >$D/demo.changed.log 2>&1); changed_rc=$?; fi
base=$(/verif/tools/run_baseline.sh $S 2>&1 | head -1)
cd /; git -C /repo worktree remove --force $S
SEEDROOT=$ROOT python3 - "$id" "$clean_rc" "$changed_rc" "$base" <<'P'
import json,sys
id,c,ch,b=sys.argv[1:5]; root=__import__("os").environ.get("SEEDROOT","/tmp/seedout")
json.dump({'id':id,'applies':True,'patch_used':'patch.rebased.diff' if __import__('os').path.exists(f'{root}/{id}/patch.rebased.diff') else 'patch.diff','demo_exit_on_clean_tree':c,'demo_exit_with_change':ch,'baseline_with_change':b,'repo_head':__import__('subprocess').run(['git','-C','/repo','rev-parse','--short','HEAD'],capture_output=True,text=True).stdout.strip()},open(f'{root}/{id}/confirm.json','w'),indent=1)
P
cat $D/confirm.json
