#!/bin/bash
# usage: run_baseline.sh <source-dir> [ctest -R regex]
# Configures+builds <source-dir> into <source-dir>/_build (Ninja, RelWithDebInfo) and runs the
# pinned ctest command; prints which of the 30 stable-baseline tests failed.
set -u
# one suite at a time on this machine: every test process allocates 4 GiB of ring memory
exec 9>/tmp/.run_baseline.lock; flock 9
S=${1:?source dir}; R=${2:-}
B=$S/_build
mkdir -p $B; if [ ! -f $B/build.ninja ]; then cmake -G Ninja -S $S -B $B -DCMAKE_BUILD_TYPE=RelWithDebInfo >$B/verif.configure.log 2>&1 || { echo CONFIGURE-FAILED; tail -20 $B/verif.configure.log; exit 2; }; fi
cmake --build $B >$B/verif.build.log 2>&1 || { echo BUILD-FAILED; tail -40 $B/verif.build.log; exit 2; }
if [ -n "$R" ]; then ctest --test-dir $B -j8 --timeout 900 -R "$R" --output-junit $B/junit.xml >$B/verif.ctest.log 2>&1; else ctest --test-dir $B -j8 --timeout 900 --output-junit $B/junit.xml >$B/verif.ctest.log 2>&1; fi
python3 - $B/verif.ctest.log <<'P'
import sys,re,json
stable=set(x.split('::')[0] for x in json.load(open('/root/.vp/BASELINE.json'))['stable_pass'])
log=open(sys.argv[1]).read()
res={}
for m in re.finditer(r'Test\s+#\d+:\s+(\S+)\s+\.+\s*(\S.*?)\s+[\d.]+ sec',log):
    res[m.group(1)]=m.group(2)
bad=[t for t in sorted(res) if t in stable and not res[t].startswith('Passed')]
ran=[t for t in res if t in stable]
print(f"stable tests run={len(ran)} failed={len(bad)}")
for t in bad: print("  FAILED(stable):",t,res[t])
other=[t for t in sorted(res) if t not in stable and not res[t].startswith('Passed')]
for t in other: print("  failed(non-stable/flaky):",t,res[t])
sys.exit(1 if bad else 0)
P
