#!/usr/bin/env python3
"""repo_edit.py <file> <old-file> <new-file>: replace exactly one occurrence, preserving the file's line endings (CRLF-safe)."""
import sys
p, fo, fn = sys.argv[1:4]
s = open(p, 'rb').read()
old = open(fo, 'rb').read(); new = open(fn, 'rb').read()
crlf = b'\r\n' in s
if crlf:
    old = old.replace(b'\r\n', b'\n').replace(b'\n', b'\r\n'); new = new.replace(b'\r\n', b'\n').replace(b'\n', b'\r\n')
assert s.count(old) == 1, f'old text occurs {s.count(old)} times'
open(p, 'wb').write(s.replace(old, new))
print('edited', p, '(CRLF)' if crlf else '')
