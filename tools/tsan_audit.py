#!/usr/bin/env python3
"""ThreadSanitizer audit of the E2 watch list: runs the scenario bodies free (real threads, real time, no scheduler) under
TSan and compares every reported race address in repository code with the watch ranges the harness registers.
Writes /verif/evidence/audit_watchlist.json (supplementary; not a property verdict)."""
import json, os, re, subprocess, sys
V = '/verif'
REPO = os.environ.get('REPO', '/repo')
import hashlib
key = hashlib.md5((REPO + '\n').encode()).hexdigest()[:8]
B = f'{V}/build/tsan-{key}'
subprocess.run(['make', '-s', '-j16', '-f', f'{V}/engines/vsched/Makefile', f'V={V}', f'REPO={REPO}', 'FLAVOUR=tsan', 'audit'], check=True)
RUNS = [
    ('rt_audit', 'c04', dict(exposure=4, n=3, ringf=2, ringx=8, client=1)),
    ('rt_audit', 'c04', dict(exposure=4, n=3, ringf=1, ringx=1, append_ms=25)),
    ('rt_audit', 'c07', dict(exposure=4, n=1000000, variant=0, ringf=2, ringx=8)),
    ('rt_audit', 'c07', dict(exposure=4, n=1000000, variant=0, ringf=1, ringx=1, append_ms=40)),
    ('rt_audit', 'c07', dict(exposure=4, n=1000000, variant=0, trigger=1, ringf=2, ringx=8)),
    ('rt_audit', 'c07', dict(exposure=4, n=1000000, variant=0, client_polls=1, ringf=2, ringx=8)),
    ('rt_audit', 'c09', dict(exposure=4, n=3, storefail=1, ringf=2, ringx=8)),
    ('rt_audit', 'c09', dict(exposure=4, n=3, camfail=1, ringf=2, ringx=8)),
    ('rt_audit', 'c10', dict(exposure=4, n=5, avg=2, ringf=2, ringx=8, fringf=2, fringx=8)),
    ('rt_audit', 'c06', dict(exposure=4, n=3, ends='as', prog='mH', ringf=2, ringx=8)),
    ('rt_audit', 'c08', dict(prog='AsBsS')), ('rt_audit', 'c08', dict(prog='AsAS')), ('rt_audit', 'c08', dict(prog='AssS')),
    ('simcam_audit', 'c18', dict(trigger=1, frames=2, ctl='tts')), ('simcam_audit', 'c18', dict(trigger=0, frames=2, ctl='ws')),
    ('simcam_audit', 'c17r', dict(w=8, h=8, w2=64, h2=64, kind=0)),
]
races = {}
ranges_seen = {}
for exe, scen, params in RUNS:
    for rep in range(3):
        cmd = [f'{B}/{exe}', '--scenario', scen]
        for k, v in params.items():
            cmd += ['--param', f'{k}={v}']
        p = subprocess.run(cmd, cwd=B, env={**os.environ, 'TSAN_OPTIONS': 'halt_on_error=0 report_signal_unsafe=0 history_size=4'}, stdout=subprocess.PIPE, stderr=subprocess.STDOUT, text=True, timeout=180)
        watch = []
        for m in re.finditer(r'WATCH-RANGE (0x[0-9a-f]+) (\d+) (.+)', p.stdout):
            watch.append((int(m.group(1), 16), int(m.group(2)), m.group(3)))
        for blk in p.stdout.split('WARNING: ThreadSanitizer: data race')[1:]:
            acc = re.findall(r'(Write|Read|Previous write|Previous read|Atomic write|Previous atomic write) of size (\d+) at (0x[0-9a-f]+) by [^\n]*\n\s+#0 (\S+) (\S+?):(\d+)', blk)
            if len(acc) < 2:
                continue
            addr = int(acc[0][2], 16)
            locs = sorted({f"{a[4].replace(REPO + '/', '')}:{a[5]} {a[3]}" for a in acc[:2]})
            in_repo = any(a[4].startswith(REPO) for a in acc[:2])
            w = next((n for (a0, n0, n) in watch if a0 <= addr < a0 + n0), None)
            k = ' <-> '.join(locs)
            e = races.setdefault(k, {'locations': locs, 'in_repository_code': in_repo, 'watched_as': w, 'scenarios': set(), 'count': 0})
            e['count'] += 1; e['scenarios'].add(scen)
            if w:
                e['watched_as'] = w
rows = sorted(races.values(), key=lambda e: (not e['in_repository_code'], e['watched_as'] is not None, e['locations']))
for e in rows:
    e['scenarios'] = sorted(e['scenarios'])
gaps = [e for e in rows if e['in_repository_code'] and not e['watched_as']]
out = {'what': 'free-running TSan audit of the vsched watch list', 'runs': len(RUNS) * 3, 'distinct_races': len(rows),
       'races_in_repository_code': sum(e['in_repository_code'] for e in rows), 'covered_by_watch_ranges': sum(1 for e in rows if e['in_repository_code'] and e['watched_as']),
       'coverage_gaps': gaps, 'all': rows}
json.dump(out, open(f'{V}/evidence/audit_watchlist.json', 'w'), indent=1)
print(f"distinct races {len(rows)}; in repository code {out['races_in_repository_code']}; on watched fields {out['covered_by_watch_ranges']}; gaps {len(gaps)}")
for e in gaps:
    print('  GAP', e['locations'], e['scenarios'], e['count'])
