#!/usr/bin/env python3
"""Regenerates /verif/MANIFEST.json from the table below (keeps it valid while checks are added)."""
import json

V = '/verif'
props = [json.loads(l) for l in open(f'{V}/properties.jsonl')]

E1 = 'explicit-state model checking (BFS over all operation sequences) on the real channel.c'
E2 = 'stateless model checking: exhaustive schedule enumeration under a controlled scheduler, preemption/delay bounded, on the real runtime'
E3 = 'bounded exhaustive enumeration of call sequences x environment answers on the real functions against a reference model'

CHECKS = {
    'C01': ('chanbfs', 'Explicit-state BFS over all operation sequences (write sizes 1..cap, commit/abort, rewind, 1-8 readers joining anywhere, partial/over consumption, accept/refuse toggles) executed on the real channel.c for capacities 3-8; every read is compared byte-for-byte with the committed stream of a reference model; exhaustive within the listed capacities/reader counts.',
            'operation-level atomicity of channel.c (all operations hold the channel lock; the unlocked accept_writes store is explored at thread level by C03); per-cell lag abstraction with dead-cell scribbling (DESIGN 2.1); capacities > 8 not enumerated', E1, '4/C01'),
    'C02': ('chanbfs', 'Same exhaustive state graph as C01 with the writer-side oracle: every granted write region is contiguous, inside the buffer and disjoint from every byte any reader has mapped or not yet consumed; oversize requests are refused; no region is withheld while writes are accepted and space exists (blocking is judged by C03).',
            'as C01', E1, '4/C02'),
    'C03': ('chanbfs+vsched', 'Part A: from every reachable channel state in which a write request blocks, the parked-writer closure enumerates all reader/refuse interleavings on the real code: the writer is notified exactly when its request becomes grantable or refused, never stays blocked with all readers drained, readers drain within 4 map calls. Part B: real threads on channel.c + linux/platform.c under the controlled scheduler: every interleaving of the writer\'s check-then-sleep with readers\' unmaps and the refuse-writes signal, from blocked start states.',
            'Part A: operation-level; Part B: sequential consistency, scheduling points at pthread operations and at the unlocked is_accepting_writes store/load', E1 + ' + ' + E2, '4/C03'),
    'C04': ('vsched', 'All schedules with at most the stated number of preemptions/deviations of start;[client polls];stop on the real acquire.c/source.c/sink.c/filter.c/channel.c/HAL/platform.c with a recording mock camera and storage, over ring sizes of 1-3 frames, frame sizes, slow storage, slow camera, write delay, monitoring clients and two streams: the storage log must equal the frames the camera delivered.',
            'sequential consistency; mock devices; small rings swapped in without source changes; bounds per configuration in the evidence', E2, '4/C04'),
    'C05': ('vsched', 'Shape sweep (8 sample types x widths x heights: all residues of the image size mod 8) on rings that wrap, with a client that consumes regions partially: every packet handed to storage and every region mapped by the client is walked and must be a chain of whole, 8-byte aligned frames with bytes_of_frame = header + image rounded up to 8 (computed independently) and the camera\'s shape; all non-preemptive schedules per shape, bounded deviations on selected shapes.',
            'as C04', E2, '4/C05'),
    'C06': ('vsched', 'Client programs (map/unmap all, first frame only, nothing, hold, hold across abort) x acquisition sequences ended by stop or abort x monitoring from the first or a later acquisition, all schedules within the bound: consecutive frame ids with this acquisition\'s pixels, nothing delivered after stop/abort returned, map/unmap always succeed, a held region does not change until it is handed back (or the end call returns), storage unaffected.',
            'as C04; a client that stops draining and then calls stop is a recorded known finding (c06u)', E2, '4/C06'),
    'C07': ('vsched', 'A controller thread whose only action is abort (or stop) is runnable from the instant start returns, so bounded exploration enumerates every point of the schedule as the abort instant; situations: infinite/finite acquisition, camera waiting for a trigger, ring full with the source asleep, averaging, client holding a region, concurrent aborts; oracle: returns (no deadlock/livelock), workers joined, devices stopped, Armed, storage holds a gap-free prefix, follow-up acquisition complete.',
            'as C04', E2, '4/C07'),
    'C08': ('vsched', 'All well-formed client programs up to depth 3 (quick) / 4 (thorough) over configure(A|B|none), start, trigger, map, unmap, stop, abort, wait, shutdown+init, plus hand-picked programs with devices that reject settings, refuse to start, fail an append or a shape query, averaging, two streams, and client calls timed to the instant an acquisition ends by itself, each under all schedules within the bound; oracle: life-cycle automaton per device fed by the recording driver (open/close pairing, start only when stopped, stop once per start, append only while started, page-protected devices fault on any use after close), state reports.',
            'as C04; camera frame calls racing a stop from another thread are legal (events, not violations)', E2, '4/C08'),
    'C09': ('vsched', 'Fault site (get_frame call k / append call k) x ring (incl. source asleep on a full ring) x end call (stop|abort) x schedules within the bound, then a fault-free acquisition: nothing appended after the failure, camera stopped, stop/abort return, not Running, follow-up complete and free of leftovers.',
            'as C04', E2, '4/C09'),
    'C10': ('vsched', 'Window k in {2,3} x frame counts around multiples of k x integer sample types x shapes on dirty 2-3 frame rings, filter thread in the loop, schedules within the bound: one f32 frame per complete window with the exact mean (2 ulp) and the first input\'s id, at most one trailing frame.',
            'as C04; ring memory pre-filled with a non-zero pattern (content outside committed data is unspecified)', E2, '4/C10'),
    'C11': ('seqx', 'All HAL call sequences up to depth 5 (quick) / 6 (thorough) on one camera and one storage x every driver answer (Ok/Err, every DeviceState) at every driver entry, on the real camera.c/storage.c/driver.c with a recording page-protected driver: the driver sees only legal calls, exactly one close, nothing afterwards; the HAL-reported state follows from the driver\'s last answer.',
            'single-threaded; answer menu per driver entry as listed in the evidence', E3, '4/C11'),
    'C12': ('seqx', 'All patterns up to length 3 (quick: on three installations; thorough: on all 16) over a 19-symbol regex alphabet, malformed patterns that are hostile printf formats, every sequence of three selections (with repetition) over a menu of well-formed, non-matching and malformed patterns on one manager, indices up to 2^32-1, device-manager life-cycle sequences with two managers, plus whole-name/prefix/suffix/case/NUL variants of every enumerated name x all kinds x all indices x all 16 subsets of driver libraries, through the real loader and device manager: results agree with an independent matcher over the enumeration; malformed input gives an error status, never an exception or crash.',
            'patterns longer than the bound are not enumerated; strong oracle only inside the ECMAScript subset of the reference matcher', E3, '4/C12'),
    'C13': ('seqx', 'All call sequences up to depth 4 (quick) / 5 (thorough) over init/set_uri/set_external_metadata/set_access_key_and_secret/set_dimension/set_enable_multiscale/copy/destroy on three objects with a small string/dimension alphabet (NULL, empty, unterminated, long), against a value model, with an allocation ledger (interposed malloc family) and pointer-independence checks; for histories of up to 3 calls the last call also with each of its allocation requests failing in turn (well-formed strings, no sharing, no double release, no leak); ASan build of the same enumeration in thorough.',
            'string alphabet and depth as listed', E3, '4/C13'),
    'C14': ('seqx', 'Raw device through the real HAL and platform.c over an in-memory file system (interposed open/flock/pwrite/close): all histories of 1-3 set/start/append*/stop cycles x packet groupings of 1-3 frames x URI spellings x every placement of up to 2 (quick) / 3 (thorough) short/zero writes, triple stalls, an interrupted write (EINTR) at every pwrite index, a second device pointed at the file being recorded, a live set that is rejected: file content == concatenation of that cycle\'s packets.',
            'interposed libc calls model the kernel: short writes, zero writes; real raw.c, platform.c file_write', E3, '4/C14'),
    'C15': ('seqx', 'tiff and tiff-json devices over the in-memory file system: shapes x sample types x frame counts x packet groupings x metadata x pixel scales x URI spellings x 1-2 start/stop cycles, packets of differently sized frames, short-write plans, one failing write at every index (frames appended before it still round-trip), a second device on the same target; every produced file is parsed by an independent BigTIFF reader: N directories ending in 0, offsets in range, structures disjoint, per-directory tags and strips equal the frames, descriptions parse as JSON with the frame\'s ids/timestamps, metadata placement.',
            'independent reader and JSON parser are the trusted base', E3, '4/C15'),
    'C16': ('seqx', 'Every storage kind x life-cycle histories up to depth 5 x failure of the k-th open/flock/pwrite (transient or persistent; EIO, ENOSPC, EINTR, EAGAIN, stalls), failing close calls, descriptor 0 free when the device creates its files, with a descriptor ledger (lowest-free numbering, foreign descriptors in between): no crash, no unbounded recursion, no hang; a failing write leaves the running state by the end of that append; only owned descriptors are written or closed, each closed exactly once.',
            'fake kernel in the harness; stack guard for recursion', E3, '4/C16'),
    'C17': ('seqx', 'Simulated cameras under ASan: kind x binning x sample type x boundary shapes x offsets x set/start/get_frame/stop/set sequences (pairs of configurations), allocation failures inside set: reported shape/strides/readback, bytes written to the caller\'s buffer, no out-of-bounds access; plus the re-configure-while-running race under vsched.',
            'boundary values only for the 1..8192 axes; AVX2 and plain bin2', E3 + ' + ' + E2, '4/C17'),
    'C18': ('vsched', 'Real simulated.camera.c through the HAL under the controlled scheduler: caller (get_frame x 1-3), controller (trigger/stop sequences), streamer thread, trigger on/off, one restart; all schedules within the bound; ids strictly increasing, no frame twice, restart resets, frames <= triggers, stop unblocks.',
            'sequential consistency; watched racy fields of the camera', E2, '4/C18'),
}

BUILT = set(open(f'{V}/tools/built.txt').read().split())

checks, na = [], []
for p in props:
    pid = p['id']
    if pid in BUILT:
        eng, text, note, tech, ref = CHECKS[pid]
        checks.append({'property_id': pid, 'quick_cmd': f'/verif/vcheck {pid} --tier quick', 'thorough_cmd': f'/verif/vcheck {pid} --tier thorough',
                       'evidence_file': f'/verif/evidence/{pid}.json', 'engine': eng, 'replay_cmd_template': '/verif/vcheck replay {path}',
                       'level_claimed': {'category': 'model_checking', 'text': text, 'design_ref': 'DESIGN.md ' + ref}, 'level_note': note, 'technique': tech})
    else:
        na.append({'property_id': pid, 'reason': 'check designed (DESIGN.md section 4) but its engine is not registered yet in this round'})

m = {'version': 1, 'setup_cmd': 'make -s -C /verif -f Makefile setup',
     'hooks': {'guard': 'ACQUIRE_COMMON_VERIF', 'enable': 'checks compile the repository sources themselves with -DACQUIRE_COMMON_VERIF (build.mk); no guarded source hooks exist: all seams are link-time interposition and harness TUs that #include repository sources',
               'baseline_off_cmd': 'cmake -G Ninja -S /repo -B /repo/_build -DCMAKE_BUILD_TYPE=RelWithDebInfo && cmake --build /repo/_build && ctest --test-dir /repo/_build -j8 --timeout 900',
               'source_commits': [], 'add_only': True},
     'engines': [{'name': 'chanbfs', 'path': 'engines/chanbfs', 'serves_properties': ['C01', 'C02', 'C03'], 'kind_free_text': 'explicit-state BFS whose transitions call the real channel.c functions on restored snapshots'},
                 {'name': 'vsched', 'path': 'engines/vsched', 'serves_properties': ['C03', 'C04', 'C05', 'C06', 'C07', 'C08', 'C09', 'C10', 'C17', 'C18'], 'kind_free_text': 'pthread/sleep/clock interposition + cooperative scheduler + preemption/delay-bounded DFS over choice prefixes, fork per execution, 16 workers'},
                 {'name': 'seqx', 'path': 'engines/seqx', 'serves_properties': ['C11', 'C12', 'C13', 'C14', 'C15', 'C16', 'C17'], 'kind_free_text': 'bounded exhaustive call-sequence x environment-answer enumeration against reference models'}],
     'checks': checks, 'not_applicable': na,
     'notes': 'All checks rebuild the needed repository sources from /repo (or $REPO) on every invocation. known_findings.txt lists fixed defects and accepted findings.'}
json.dump(m, open(f'{V}/MANIFEST.json', 'w'), indent=1)
print('checks:', [c['property_id'] for c in checks], 'not_applicable:', [n['property_id'] for n in na])
