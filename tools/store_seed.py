#!/usr/bin/env python3
"""store_seed.py <seed-root> <round> <regress-output>: copies confirmed seeded changes from <seed-root>/<id>/ into
/verif/seeded/<id>/round<round>/ (round 1 lives in /verif/seeded/<id>/ itself) with a meta.json that records the property, what the
change needs to manifest, how it was confirmed (confirm.json written by tools/confirm_seed.sh) and what the checks reported
(parsed from the output of the seed regression run)."""
import json, os, re, shutil, sys
root, rnd, regress = sys.argv[1], int(sys.argv[2]), sys.argv[3]
res = {}
for line in open(regress):
    m = re.match(r'round(\d+) (C\d\d) (\d+) == (C\d\d) rc=(\d+)\s*(.*)', line.strip())
    if m and int(m.group(1)) == rnd:
        res[m.group(2)] = {'violations_reported': int(m.group(3)), 'exit': int(m.group(5)), 'first_violation': m.group(6).strip()}
for pid in sorted(os.listdir(root)):
    d = f'{root}/{pid}'
    if not (os.path.isdir(d) and re.fullmatch(r'C\d\d', pid)):
        continue
    conf = json.load(open(f'{d}/confirm.json')) if os.path.exists(f'{d}/confirm.json') else None
    ok = conf and conf.get('applies') and conf.get('baseline_with_change', '').startswith('stable tests run=30 failed=0') and str(conf.get('demo_exit_on_clean_tree')) == '0' and str(conf.get('demo_exit_with_change')) not in ('0', 'none', 'None')
    if not ok:
        print(pid, 'NOT CONFIRMED', conf)
        continue
    dst = f'/verif/seeded/{pid}' if rnd == 1 else f'/verif/seeded/{pid}/round{rnd}'
    os.makedirs(dst, exist_ok=True)
    for f in os.listdir(d):
        if f.startswith('demo.') and not f.endswith('.log') or f in ('patch.diff', 'patch.rebased.diff', 'run_demo.sh'):
            shutil.copy(f'{d}/{f}', f'{dst}/{f}')
    meta = json.load(open(f'{d}/meta.json'))
    meta['written_by'] = 'fresh sub-agent given only the property text, a one-paragraph description of the earlier seeded changes for it, and its own scratch worktree'
    meta['confirmed'] = {'how': 'tools/confirm_seed.sh: patch applied to a scratch worktree of /repo HEAD, pinned ctest suite run on it, run_demo.sh run on the clean and on the changed tree', **{k: conf[k] for k in ('repo_head', 'patch_used', 'baseline_with_change', 'demo_exit_on_clean_tree', 'demo_exit_with_change')}}
    r = res.get(pid)
    meta['checks_run'] = {'command': f'tools/try_seed.sh <patch> {pid}   (REPO=<scratch worktree with the patch> ./vcheck {pid} --tier quick)',
                          'result': ('exit %d, %d VIOLATION line(s)' % (r['exit'], r['violations_reported'])) if r else 'not re-run', 'violation': r['first_violation'] if r else ''}
    json.dump(meta, open(f'{dst}/meta.json', 'w'), indent=1)
    print(pid, 'stored in', dst, meta['checks_run']['result'])
