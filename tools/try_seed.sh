#!/bin/bash
# try_seed.sh <patch.diff> <property...>: apply a seeded change to a scratch worktree of /repo HEAD (outside /repo and /verif),
# run the given checks against it (REPO=<scratch>), print their verdict lines, remove the scratch tree and its build output.
P=$1; shift
S=/tmp/mut.$$
git -C /repo worktree add --detach $S HEAD >/dev/null 2>&1 || exit 2
if ! git -C $S apply $P; then echo "PATCH-DOES-NOT-APPLY"; git -C /repo worktree remove --force $S; exit 3; fi
K=$(echo $S | md5sum | cut -c1-8)
for prop in "$@"; do
  out=$(cd /verif && REPO=$S VERIF_DEADLINE_S=${VERIF_DEADLINE_S:-300} ./vcheck $prop --tier ${TIER:-quick} 2>&1); rc=$?
  echo "== $prop rc=$rc"; echo "$out" | grep -E "VIOLATION|KNOWN-FINDING|^\[C|BUILD-FAILED|^  C" | cut -c1-400 | head -8
done
git -C /repo worktree remove --force $S
rm -rf /verif/build/*-$K
# restore evidence of the unchanged tree is the caller's business (evidence files were rewritten by these runs)
