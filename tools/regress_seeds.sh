#!/bin/bash
# regress_seeds.sh <round> <seed-root>: re-run every seed of a round against its property's quick check (scratch worktree per seed);
# one line per seed: "round<r> <id> <violation lines> == <id> rc=<exit>   <first violation>"
r=$1; ROOT=$2
cd /verif
for p in C01 C02 C03 C04 C05 C06 C07 C08 C09 C10 C11 C12 C13 C14 C15 C16 C17 C18; do
  D=$ROOT/$p; [ -d $D ] || continue
  P=$D/patch.diff; [ -f $D/patch.rebased.diff ] && P=$D/patch.rebased.diff
  out=$(VERIF_DEADLINE_S=600 tools/try_seed.sh $P $p 2>&1 | grep -v '^KNOWN-FINDING')
  echo "round$r $p $(echo "$out" | grep -c '^VIOLATION') $(echo "$out" | grep -E '^== |PATCH' | tr '\n' ' ') $(echo "$out" | grep -m1 '^  C' | cut -c1-160)"
done
